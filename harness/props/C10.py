"""C10 -- air attenuation follows exp(-m d) on every propagation leg."""
import numpy as np
import pyfar as pf

from common import run_driver, case_hash
import framework as fw
import scenes as S
import pipeline as P

NOT_CARRIED = []


def rel(a, b):
    return abs(a - b) <= 1e-9 * max(abs(a), abs(b)) + 1e-300


def scene_case(spec):
    rng = np.random.default_rng([spec["seed"], spec["idx"]])
    out = {"evaluations": 1, "mismatches": [], "prop_failures": [], "dist": {}, "nontrivial": []}
    nb = int(rng.integers(1, 4)) if spec["idx"] % 2 == 0 else int(rng.integers(2, 4))
    cfg = S.draw_config(rng, nb=nb, multi_dir=False, max_patches=spec["max_patches"])
    cfg["att"] = np.round(rng.uniform(0.005, 0.3, nb), 4)
    if nb > 1 and spec["idx"] % 2 == 1:
        cfg["att"][int(rng.integers(0, nb))] = 0.0      # a lossless band next to lossy ones
    K = int(rng.integers(1, 3))
    radi = S.build(cfg)
    src = S.draw_inside(rng, cfg["dims"])
    recs = [S.draw_inside(rng, cfg["dims"]) for _ in range(int(rng.integers(1, 4)))]
    c, dt, dur = P.draw_timing(rng, cfg, K, "coarse" if spec["idx"] % 4 == 3 else "long", radi, src, recs)
    tag = dict(dims=cfg["dims"], patch_size=cfg["patch_size"], n_patches=cfg["n_patches"], nb=nb,
               att=cfg["att"].tolist(), alpha=cfg["alpha"].tolist(), src=src.tolist(), rec=recs[0].tolist(),
               c=c, dt=dt, dur=dur, K=K, seed=spec["seed"], idx=spec["idx"])
    out["sample"] = tag
    out["dist"]["bands_%d" % nb] = 1

    impl = P.impl_pipeline(radi, src, c, dt, dur, K, recs, direct=True)
    tok = P.model_session(radi, src, c, dt, dur, K, recs, direct=True)
    mism, mu = P.compare_stages(radi, impl, run_driver(tok), K, recs, dur, dt, src=src)
    out["max_ulp"] = mu
    out["traces"] = 1
    for m in mism:
        if m.get("rejected"):
            out["rejected"] = out.get("rejected", 0) + 1
            continue
        m.update(case=tag)
        out["mismatches"].append(m)

    # the same scene without attenuation (m = 0) and with attenuation never set
    cfg0 = dict(cfg); cfg0["att"] = np.zeros(nb)
    r0 = S.build(cfg0)
    i0 = P.impl_pipeline(r0, src, c, dt, dur, K, recs, direct=True)
    walls = S.shoebox(*cfg["dims"], off=cfg["offset"])
    import sparrowpy as sp
    rn = sp.DirectionalRadiosityFast.from_polygon(walls, cfg["patch_size"])
    din, dout = S.directions(cfg)
    for w in range(6):
        rn.set_wall_brdf([w], pf.FrequencyData(S.wall_table(cfg, w, 1, 1), cfg["freqs"]), din, dout)
    rn.bake_geometry()
    i_n = P.impl_pipeline(rn, src, c, dt, dur, K, recs, direct=True)
    for name in ["etc", "patchwise", "mono"]:
        if not np.array_equal(i0[name], i_n[name]):
            out["prop_failures"].append(dict(test="zero_exact", stage=name, case=tag,
                                             what="m = 0 does not reproduce the unattenuated (attenuation never set) result exactly"))
            break
    # the unattenuated object r0 after its run, given the attenuation m and run again (bake, source, exchange
    # with recalculation): every leg must now carry exp(-m d) -- the same as the object built with m
    r0.set_air_attenuation(pf.FrequencyData(cfg["att"], cfg["freqs"]))
    r0.bake_geometry()
    i_re = P.impl_pipeline(r0, src, c, dt, dur, K, recs, direct=True)
    for name in ["etc", "patchwise", "mono"]:
        if not np.array_equal(i_re[name], impl[name]):
            dev = float(np.abs(np.asarray(i_re[name]) - np.asarray(impl[name])).max())
            out["prop_failures"].append(dict(
                test="reused_object_new_attenuation", stage=name, case=tag, max_abs_dev=dev,
                what="an object first simulated with m = 0, then given m = %s, re-baked and re-run, does not give the "
                     "result of an object built with that m (stage %s, max abs deviation %.3g): some leg keeps the old "
                     "attenuation" % (cfg["att"].tolist(), name, dev)))
            break
    r0 = S.build(cfg0)
    P.impl_pipeline(r0, src, c, dt, dur, K, recs, direct=True)
    # walls left at their default material (no set_wall_brdf call at all): the attenuation the user set must
    # still act on the source legs, and must still be the object's attenuation after init_source_energy
    ra = sp.DirectionalRadiosityFast.from_polygon(walls, cfg["patch_size"])
    ra.set_air_attenuation(pf.FrequencyData(cfg["att"], cfg["freqs"]))
    ra.bake_geometry()
    ra.init_source_energy(pf.Coordinates(*src))
    rb = sp.DirectionalRadiosityFast.from_polygon(walls, cfg["patch_size"])
    rb.set_air_attenuation(pf.FrequencyData(np.zeros(nb), cfg["freqs"]))
    rb.bake_geometry()
    rb.init_source_energy(pf.Coordinates(*src))
    ea, eb = np.asarray(ra._energy_init_source), np.asarray(rb._energy_init_source)
    dsrc = np.linalg.norm(ra.patches_center - src, axis=1)
    if not np.array_equal(np.asarray(ra._air_attenuation, dtype=float).reshape(-1), np.asarray(cfg["att"], dtype=float)):
        out["prop_failures"].append(dict(test="default_material_attenuation", case=tag,
                                         what="after init_source_energy on an object without set_wall_brdf the air "
                                              "attenuation is %r, the user had set %r" % (
                                                  np.asarray(ra._air_attenuation).tolist(), cfg["att"].tolist())))
    elif ea.shape == eb.shape:
        for b in range(nb):
            exp_ = eb[:, 0, b] * np.exp(-cfg["att"][b] * dsrc)
            bad = np.abs(ea[:, 0, b] - exp_) > 1e-9 * np.abs(exp_) + 1e-300
            if bad.any():
                j = int(np.argmax(bad))
                out["prop_failures"].append(dict(test="default_material_attenuation", case=tag, patch=j, band=b,
                                                 what="walls with the default material: source->patch leg of patch %d, band %d "
                                                      "is %r, unattenuated %r x exp(-m d) = %r" % (
                                                          j, b, float(ea[j, 0, b]), float(eb[j, 0, b]), float(exp_[j]))))
                break
    centers = radi.patches_center
    V = radi.visibility_matrix
    n = radi.n_patches
    # patch legs: ratio of baked factors
    done = False
    for i in range(n):
        for j in range(n):
            if i == j or not (V[i, j] or V[j, i]):
                continue
            d = float(np.linalg.norm(centers[i] - centers[j]))
            for b in range(nb):
                t0 = r0._form_factors_tilde[i, j, 0, b]
                t1 = radi._form_factors_tilde[i, j, 0, b]
                if t0 != 0 and not rel(t1, t0 * np.exp(-cfg["att"][b] * d)):
                    out["prop_failures"].append(dict(test="patch_leg", i=i, j=j, band=b, d=d, ratio=float(t1 / t0),
                                                     expected=float(np.exp(-cfg["att"][b] * d)), case=tag,
                                                     what="patch->patch leg not attenuated by exp(-m d) of its geometric length"))
                    done = True
                    break
            if done:
                break
        if done:
            break
    # source legs
    for j in range(n):
        d = float(np.linalg.norm(centers[j] - src))
        for b in range(nb):
            e0 = r0._energy_init_source[j, 0, b]
            e1 = radi._energy_init_source[j, 0, b]
            if e0 != 0 and not rel(e1, e0 * np.exp(-cfg["att"][b] * d)):
                out["prop_failures"].append(dict(test="source_leg", patch=j, band=b, case=tag,
                                                 what="source->patch leg not attenuated by exp(-m d)"))
                break
    # receiver leg with order 0 (one impulse per patch): ratio exp(-m (d_sj + d_jr))
    radi.calculate_energy_exchange(c, dt, dur, 0, recalculate=True)
    r0.calculate_energy_exchange(c, dt, dur, 0, recalculate=True)
    rc = pf.Coordinates(*recs[0])
    pw1 = radi.collect_energy_receiver_patchwise(rc).time[0]
    pw0 = r0.collect_energy_receiver_patchwise(rc).time[0]
    for j in range(n):
        dd = float(np.linalg.norm(centers[j] - src) + np.linalg.norm(centers[j] - recs[0]))
        for b in range(nb):
            s0 = pw0[j, b].sum(); s1 = pw1[j, b].sum()
            if s0 != 0 and not rel(s1, s0 * np.exp(-cfg["att"][b] * dd)):
                out["prop_failures"].append(dict(test="receiver_leg", patch=j, band=b, case=tag,
                                                 ratio=float(s1 / s0), expected=float(np.exp(-cfg["att"][b] * dd)),
                                                 what="patch->receiver leg not attenuated by exp(-m d)"))
                break
    # direct sound, all receivers evaluated in ONE call: per receiver and band exp(-m r)
    rc_all = pf.Coordinates(np.array(recs)[:, 0], np.array(recs)[:, 1], np.array(recs)[:, 2])
    m1 = radi.collect_energy_receiver_mono(rc_all, direct_sound=True).time - radi.collect_energy_receiver_mono(rc_all).time
    m0 = r0.collect_energy_receiver_mono(rc_all, direct_sound=True).time - r0.collect_energy_receiver_mono(rc_all).time
    for ri, rpos in enumerate(recs):
        D = float(np.linalg.norm(rpos - src))
        for b in range(nb):
            a0 = m0[ri, b].sum(); a1 = m1[ri, b].sum()
            expect0 = 1 / (4 * np.pi * D ** 2)
            if not (abs(a0 - expect0) <= 1e-9 * expect0) or not (abs(a1 - a0 * np.exp(-cfg["att"][b] * D)) <= 1e-9 * abs(a0)):
                out["prop_failures"].append(dict(test="direct_leg", band=b, receiver=ri, case=tag,
                                                 got=float(a1), expected=float(a0 * np.exp(-cfg["att"][b] * D)),
                                                 what="direct sound not attenuated by exp(-m r) of its own receiver and band"))
    # non-increasing in m: every bin of the attenuated run <= the unattenuated run
    for name in ["etc", "patchwise", "mono"]:
        if np.any(impl[name] > i0[name] * (1 + 1e-12) + 1e-300):
            out["prop_failures"].append(dict(test="monotone_m", stage=name, case=tag,
                                             what="a result grew when the attenuation coefficient was increased"))
            break
    out["nontrivial"].append(case_hash(tag))
    return out


def run(res):
    quick = res.tier == "quick"
    specs = [dict(seed=res.seed, idx=i, max_patches=(18 if quick else 34)) for i in range(10 if quick else 300)]
    for r in fw.run_parallel(scene_case, specs):
        res.absorb(r)
    # the same law in the Kang engine (RadiosityKang / PatchesKang): scene cases of C19 -- all orders and
    # the receiver response against the model, plus their independent oracles
    import props.C19 as C19
    kspecs = [dict(seed=res.seed + 5, idx=i, quick=True, force=dict(att_pos=True, int_alpha=(i % 2 == 0)))
              for i in range(16 if quick else 160)]
    for r in fw.run_parallel(C19.scene_case, kspecs):
        res.absorb(r)
    # ... and a Kang object run a second time (another source first) must equal a fresh object, in every band
    for r in fw.run_parallel(C19.rerun_case, [dict(seed=res.seed + 9, idx=i) for i in range(4 if quick else 40)]):
        res.absorb(r)
    res.rule = ("shoebox scenes, 1-3 bands with m in [0.005,0.3] Np/m, order 1-2; the attenuated run is compared "
                "with the model and, leg by leg, with the m = 0 run and with a run where attenuation was never set; "
                "every case is non-trivial (m > 0), distinct by input hash")
    res.not_carried = NOT_CARRIED
    res.assumptions = ["exp is an Ops operation: OCaml libm vs numpy agree to <= 1 ulp, compared at rel. 1e-9"]


def replay(res, payload):
    for f in payload.get("failures", []) + payload.get("correspondence", []):
        case = f.get("case", {})
        import props.C19 as C19
        if C19.replay_case(res, case):
            continue
        res.absorb(scene_case(dict(seed=case["seed"], idx=case["idx"], max_patches=34)))
