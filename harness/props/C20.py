"""C20 -- source directivity is applied per direction in the source's own frame."""
import os
import time
import numpy as np
import pyfar as pf
import sofar as sf

import common
from common import Tok, run_driver, floats, ints, cmp_float, cmp_exact, case_hash, ulp_dist
import framework as fw
import scenes as S
import pipeline as P

from sparrowpy import geometry
import sparrowpy as sp
from sparrowpy.sound_object import DirectivityMS, SoundSource, _get_metrics

NOT_CARRIED = [
    "the atan2/asin -> cos/sin round trip of _get_metrics + from_spherical_elevation is modelled by its "
    "trig-free closed form; that the two agree is checked by the correspondence run (<= 1e-9 on every case), "
    "not proved",
    "pf.Coordinates.find_nearest (KD-tree) is taken to be the exhaustive first argmin of the squared distance; "
    "targets whose two nearest measured directions are closer than 1e-9 in squared distance, and band "
    "frequencies equidistant from two measured ones, are rejected and counted",
    "bit-exactness of multiplying by an all-ones table in IEEE arithmetic is covered by C20_unit only through "
    "its single hypothesis x*1 = x; that binary64 satisfies it is an IEEE-754 fact, observed (bit-identical "
    "arrays) by the harness, not proved in Coq",
    "invariance of the omnidirectional pipeline itself under rotating the room (form factors, shares, "
    "visibility enter the model as data) is not part of C20's theorems; C20_corotate_scene covers every "
    "directivity lookup and factor, the harness measures the whole e0/direct sound on rotated rooms",
]

TIE_EPS = 1e-9


# --------------------------------------------------------------------------
# synthetic SOFA files
# --------------------------------------------------------------------------
def _unit(v):
    v = np.asarray(v, dtype=float)
    return v / np.linalg.norm(v, axis=-1, keepdims=True)


def draw_receivers(rng):
    """6-200 measured directions: random unit vectors, structured grids, or a mixture"""
    kind = str(rng.choice(["random", "grid", "mixed", "axes+random"]))
    pts = []
    if kind in ("grid", "mixed"):
        n_el = int(rng.integers(2, 8))
        n_az = int(rng.integers(3, 16))
        els = (np.arange(n_el) + 0.5) / n_el * 180.0 - 90.0          # no poles -> no duplicates
        azs = np.arange(n_az) * 360.0 / n_az + float(rng.uniform(0, 10))
        for el in els:
            for az in azs:
                e, a = np.deg2rad(el), np.deg2rad(az)
                pts.append([np.cos(e) * np.cos(a), np.cos(e) * np.sin(a), np.sin(e)])
        if rng.random() < 0.5:
            pts += [[0, 0, 1.0], [0, 0, -1.0]]
    if kind == "axes+random":
        pts += [[1, 0, 0], [-1, 0, 0], [0, 1, 0], [0, -1, 0], [0, 0, 1], [0, 0, -1]]
    if kind != "grid":
        lo = max(0, 6 - len(pts))
        n = int(rng.integers(lo, max(lo + 1, min(200 - len(pts), 120))))
        pts += _unit(rng.normal(size=(n, 3))).tolist()
    pts = np.array(pts, dtype=float)[:200]
    if len(pts) < 6:
        pts = np.vstack([pts, _unit(rng.normal(size=(6 - len(pts), 3)))])
    pts = pts[rng.permutation(len(pts))]
    return kind, pts


def write_sofa(path, recv_unit, radius, ptype, freqs, table, n_meas, rng):
    """FreeFieldDirectivityTF file; measurement 0 carries the table, the others decoys"""
    R, N = table.shape
    s = sf.Sofa("FreeFieldDirectivityTF")
    real = np.empty((n_meas, R, N))
    real[0] = table
    for m in range(1, n_meas):
        real[m] = rng.uniform(5.0, 9.0, (R, N))
    s.Data_Real = real
    s.Data_Imag = np.zeros((n_meas, R, N))
    s.N = np.asarray(freqs, dtype=float)
    if n_meas > 1:          # optional variables whose shape depends on the number of measurements
        for v in ("Description", "MIDINote", "SourceTuningFrequency"):
            s.delete(v)
    if ptype == "cartesian":
        s.ReceiverPosition = recv_unit * np.reshape(radius, (-1, 1)) if np.ndim(radius) else recv_unit * radius
        s.ReceiverPosition_Type = "cartesian"
        s.ReceiverPosition_Units = "metre"
    else:
        az = np.rad2deg(np.arctan2(recv_unit[:, 1], recv_unit[:, 0]))
        el = np.rad2deg(np.arcsin(np.clip(recv_unit[:, 2], -1, 1)))
        s.ReceiverPosition = np.stack([az, el, np.full(R, radius) if not np.ndim(radius) else np.asarray(radius, dtype=float)], axis=1)
        s.ReceiverPosition_Type = "spherical"
        s.ReceiverPosition_Units = "degree, degree, metre"
    sf.write_sofa(path, s)


def make_directivity(rng, tag, band_freqs=None, ones=False):
    """draw a sampling + table, write it, load it with DirectivityMS, delete the file.
    Returns (DirectivityMS, info dict)"""
    kind, recv = draw_receivers(rng)
    nf = int(rng.integers(1, 6))
    if band_freqs is None:
        freqs = np.sort(np.round(rng.uniform(50.0, 8000.0, nf), 1))
    else:
        lo, hi = 0.5 * min(band_freqs), 2.0 * max(band_freqs)
        freqs = np.sort(np.round(rng.uniform(lo, hi, nf), 1))
    freqs = np.unique(freqs)
    nf = len(freqs)
    table = np.ones((len(recv), nf)) if ones else rng.uniform(0.05, 3.0, (len(recv), nf))
    ptype = "cartesian" if rng.random() < 0.6 else "spherical"
    radius = 1.0 if rng.random() < 0.7 else float(np.round(rng.uniform(0.5, 3.0), 2))
    n_meas = 1 if rng.random() < 0.7 else 2
    radius_scalar = radius
    if len(recv) <= 60 and rng.random() < 0.3:
        # measurement positions that are not all at the same distance (a few percent apart)
        radius = radius * (1.0 + rng.uniform(-0.03, 0.03, len(recv)))
    os.makedirs(common.TMP, exist_ok=True)
    path = os.path.join(common.TMP, "c20_%d_%d_%s.sofa" % (os.getpid(), time.time_ns(), tag))
    try:
        write_sofa(path, recv, radius, ptype, freqs, table, n_meas, rng)
        dms = DirectivityMS(path)
    finally:
        try:
            os.remove(path)
        except OSError:
            pass
    info = dict(kind=kind, n_recv=len(recv), n_freq=nf, ptype=ptype, radius=radius_scalar, n_meas=n_meas,
                radius_varies=bool(np.ndim(radius)),
                freqs=freqs, table=table, recv_true=np.asarray(recv, dtype=float) * (np.reshape(radius, (-1, 1)) if np.ndim(radius) else radius))
    # the measured directions WRITTEN to the file are the ground truth for every expectation and
    # for the model; what DirectivityMS parsed is compared against them separately
    dms._verif_recv_true = info["recv_true"]
    return dms, info


def draw_frame(rng):
    """orthonormal view/up (QR of a Gaussian matrix), handed to the constructor either as is or
    scaled by positive factors (the constructor normalises)"""
    q = np.linalg.qr(rng.normal(size=(3, 3)))[0]
    view, up = q[:, 0].copy(), q[:, 1].copy()
    if rng.random() < 0.3:
        view *= float(rng.uniform(0.3, 4.0))
        up *= float(rng.uniform(0.3, 4.0))
    return view, up


def random_rotation(rng):
    q = np.linalg.qr(rng.normal(size=(3, 3)))[0]
    if np.linalg.det(q) < 0:
        q[:, 2] = -q[:, 2]
    return q


# --------------------------------------------------------------------------
# independent oracle for the property statement (numpy, not the model)
# --------------------------------------------------------------------------
def oracle_dirs(pos, view, up, targets):
    """unit vectors of the source-to-target directions in the frame (view, up x view, up)"""
    v, u = _unit(view), _unit(up)
    d = np.atleast_2d(targets) - pos
    w = np.stack([d @ v, d @ np.cross(u, v), d @ u], axis=1)
    return w / np.linalg.norm(d, axis=1, keepdims=True)


def sq_dists(recv, w):
    return np.sum((recv[None, :, :] - w[:, None, :]) ** 2, axis=2)


def oracle_index(recv, w):
    d2 = sq_dists(recv, w)
    idx = np.argmin(d2, axis=1)
    s = np.sort(d2, axis=1)
    gap = s[:, 1] - s[:, 0] if d2.shape[1] > 1 else np.full(len(w), np.inf)
    return idx, gap


def freq_tie(freqs, f):
    d = np.sort(np.abs(np.asarray(freqs) - f))
    return len(d) > 1 and (d[1] - d[0]) < 1e-9 * max(1.0, abs(f))


def ori_tokens(tok, dms, view, up):
    tok.cmd("directivity").vecs(dms._verif_recv_true).arr(dms.data.frequencies)
    tok.arr(np.real(dms.data.freq)).vec(view).vec(up)
    return tok


def new_out():
    return {"evaluations": 1, "mismatches": [], "prop_failures": [], "dist": {}, "nontrivial": [],
            "rejected": 0, "traces": 0}


# --------------------------------------------------------------------------
# lookup level
# --------------------------------------------------------------------------
def lookup_case(spec):
    rng = np.random.default_rng([spec["seed"], 2000 + spec["idx"]])
    out = new_out()
    dms, info = make_directivity(rng, "l%d" % spec["idx"], ones=False)
    recv = info["recv_true"]
    table = info["table"]
    parsed = np.asarray(dms.receivers.cartesian)
    if parsed.shape != recv.shape or np.abs(parsed - recv).max() > 1e-9 * max(1.0, info["radius"]):
        out["prop_failures"].append(dict(
            test="measured_directions", ptype=info["ptype"], case=dict(seed=spec["seed"], idx=spec["idx"], lookup=True),
            what="the measured directions read from the SOFA file (%s positions) are not the ones written to it"
                 % info["ptype"]))
    view, up = draw_frame(rng)
    pos = rng.normal(size=3) * 3.0
    n_t = spec["n_targets"]
    scale = np.exp(rng.uniform(np.log(0.05), np.log(30.0), (n_t, 1)))
    targets = pos + _unit(rng.normal(size=(n_t, 3))) * scale
    # a few targets exactly along measured directions of the source frame and along the frame axes
    src = SoundSource(pos, view, up, dms)
    vn, un = src.view, src.up
    basis = np.stack([vn, np.cross(un, vn), un], axis=0)          # rows: x, y, z of the source frame
    k = int(rng.integers(0, len(recv)))
    targets[0] = pos + (_unit(recv[k]) @ basis) * float(rng.uniform(0.5, 5))
    targets[1] = pos + vn * 2.0
    targets[2] = pos + un * 0.7
    targets[3] = pos - np.cross(un, vn) * 1.3
    fs = list(rng.uniform(20.0, 12000.0, 3)) + [float(info["freqs"][int(rng.integers(0, info["n_freq"]))])]
    if info["n_freq"] > 1:
        j = int(rng.integers(0, info["n_freq"] - 1))
        fs.append(float(info["freqs"][j] + rng.uniform(0.05, 0.95) * (info["freqs"][j + 1] - info["freqs"][j])))
    fs = [f for f in fs if not freq_tie(info["freqs"], f)]
    out["rejected"] += 5 - len(fs) if info["n_freq"] > 1 else 4 - len(fs)
    tag = dict(level="lookup", seed=spec["seed"], idx=spec["idx"], n_targets=n_t, n_recv=info["n_recv"],
               n_freq=info["n_freq"], sampling=info["kind"], ptype=info["ptype"], radius=info["radius"],
               view=view.tolist(), up=up.tolist(), pos=pos.tolist())
    out["sample"] = tag
    out["dist"]["sampling_" + info["kind"]] = 1
    out["dist"]["pos_type_" + info["ptype"]] = 1
    out["dist"]["n_recv_%03d" % (50 * (info["n_recv"] // 50))] = 1
    out["dist"]["n_freq_%d" % info["n_freq"]] = 1
    out["dist"]["frame_scaled" if abs(np.linalg.norm(view) - 1) > 1e-6 else "frame_unit"] = 1

    w = oracle_dirs(pos, view, up, targets)
    idx, gap = oracle_index(recv, w)
    keep = gap >= TIE_EPS
    if info.get("radius_varies"):
        # 'nearest measured direction' is meant in angle; targets for which the position nearest in space is not
        # the direction nearest in angle (possible when the radii differ) are left out
        ang = np.argmax((recv / np.linalg.norm(recv, axis=1, keepdims=True)) @ w.T, axis=0)
        keep &= (ang == idx)
        out["dist"]["radius_varies"] = 1
    out["rejected"] += int((~keep).sum())
    targets, w, idx = targets[keep], w[keep], idx[keep]
    if len(targets) < 2 or not fs:
        return out

    # ---- model
    tok = ori_tokens(Tok(), dms, view, up)
    tok.cmd("q_framedir").vec(pos).vecs(targets)
    tok.cmd("q_dirindex").vec(pos).vecs(targets)
    tok.cmd("q_freqindex").arr(np.array(fs))
    for f in fs:
        tok.cmd("q_dirfac").vec(pos).vecs(targets).f(f)
    res = run_driver(tok)
    m_dir = floats(res[0][1], (-1, 3))
    m_idx = ints(res[1][1])
    m_fidx = ints(res[2][1])
    m_fac = [floats(r[1]) for r in res[3:]]

    # ---- implementation
    impl_dir = []
    for t in targets:
        az, el = _get_metrics(src.position, src.view, src.up, t)
        impl_dir.append(pf.Coordinates.from_spherical_elevation(
            az / 180 * np.pi, el / 180 * np.pi, 1).cartesian.reshape(3))
    impl_dir = np.array(impl_dir)
    err = float(np.abs(impl_dir - m_dir).max())
    if not err <= 1e-9:
        out["mismatches"].append(dict(stage="frame_dir", case=tag,
                                      what="_get_metrics+from_spherical_elevation vs trig-free model: max abs "
                                           "difference %.3g" % err))
    impl_idx = np.array([int(np.asarray(dms.receivers.find_nearest(
        pf.Coordinates(*v))[0]).reshape(-1)[0]) for v in impl_dir])
    m = cmp_exact(impl_idx, m_idx, "find_nearest index")
    if m:
        out["mismatches"].append(dict(stage="lookup", what=m, case=tag))
    impl_fidx = np.array([int(np.argmin(np.abs(dms.data.frequencies - f))) for f in fs])
    for fi, f in enumerate(fs):
        got = np.asarray(src.get_directivity(targets, f))
        one = np.asarray(src.get_directivity(targets[0], f)).reshape(-1)
        if got.shape != (len(targets),) or one.shape != (1,) or np.any(np.imag(got) != 0):
            out["mismatches"].append(dict(stage="get_directivity shape", case=tag,
                                          what="shape %s / %s" % (got.shape, one.shape)))
            continue
        got = np.real(got)
        m = cmp_float(got, m_fac[fi], what="SoundSource.get_directivity(f=%r)" % f)
        if m:
            out["mismatches"].append(dict(stage="get_directivity", what=m, case=tag))
        if np.real(one[0]) != got[0]:
            out["mismatches"].append(dict(stage="get_directivity single target", case=tag,
                                          what="single %r vs batch %r" % (float(np.real(one[0])), float(got[0]))))
        # ---- the property statement, by the independent oracle
        kf = int(np.argmin(np.abs(info["freqs"] - f)))
        want = table[idx, kf]
        if not np.array_equal(got, want):
            j = int(np.argmax(got != want))
            out["prop_failures"].append(dict(
                test="lookup", case=tag, target=targets[j].tolist(), frequency=float(f),
                what="get_directivity returns %r, the table entry of the measured direction nearest to the "
                     "source-frame direction at the nearest measured frequency is %r" % (float(got[j]), float(want[j]))))
        if m_fidx[fi] != impl_fidx[fi] or impl_fidx[fi] != kf:
            out["mismatches"].append(dict(stage="frequency index", case=tag,
                                          what="f=%r impl %d model %d" % (f, impl_fidx[fi], m_fidx[fi])))
    # ---- rotating pose and targets together (arbitrary rotation) changes no factor
    M = random_rotation(rng)
    src_r = SoundSource(M @ pos, M @ view, M @ up, dms)
    f0 = fs[0]
    a = np.real(src.get_directivity(targets, f0))
    b = np.real(src_r.get_directivity(targets @ M.T, f0))
    if not np.array_equal(a, b):
        j = int(np.argmax(a != b))
        out["prop_failures"].append(dict(
            test="corotate_lookup", case=tag, target=targets[j].tolist(), rotation=M.tolist(),
            what="rotating source pose and target together changes the directivity factor: %r -> %r"
                 % (float(a[j]), float(b[j]))))
    # ---- the same DirectivityMS object used by a second source at the SAME position with another
    # orientation, queried for the same targets afterwards: the factors follow the new orientation
    view2, up2 = draw_frame(rng)
    src2 = SoundSource(pos, view2, up2, dms)
    w2 = oracle_dirs(pos, view2, up2, targets)
    idx2, gap2 = oracle_index(recv, w2)
    ok2 = gap2 >= TIE_EPS
    for f in fs[:2]:
        kf = int(np.argmin(np.abs(info["freqs"] - f)))
        np.asarray(src.get_directivity(targets, f))              # first orientation asked first
        got2 = np.real(np.asarray(src2.get_directivity(targets, f)))
        want2 = table[idx2, kf]
        bad = ok2 & (got2 != want2)
        if np.any(bad):
            j = int(np.argmax(bad))
            out["prop_failures"].append(dict(
                test="reorient_shared_directivity", case=tag, target=targets[j].tolist(), frequency=float(f),
                view2=view2.tolist(), up2=up2.tolist(),
                what="a second source at the same position with another orientation, sharing the DirectivityMS "
                     "object, returns %r for a target the first source was asked about before; the table entry of "
                     "the nearest measured direction in ITS frame is %r" % (float(got2[j]), float(want2[j]))))
            break
        # and the first source again afterwards
        got1 = np.real(np.asarray(src.get_directivity(targets, f)))
        if not np.array_equal(got1, table[idx, kf]):
            j = int(np.argmax(got1 != table[idx, kf]))
            out["prop_failures"].append(dict(
                test="reorient_shared_directivity", case=tag, target=targets[j].tolist(), frequency=float(f),
                what="after another orientation was served, the first source returns %r instead of %r"
                     % (float(got1[j]), float(table[idx, kf][j]))))
            break
    out["traces"] = len(fs) + 2
    if len(set(idx.tolist())) >= 2:
        out["nontrivial"].append(case_hash(tag))
    return out


# --------------------------------------------------------------------------
# scene level
# --------------------------------------------------------------------------
def draw_dirs(rng, n):
    """n directions in the open upper hemisphere in general position (no symmetry, so the
    nearest-direction lookups between patch centres of a shoebox have no built-in ties)"""
    if n == 1:
        return pf.Coordinates(0, 0, 1, weights=1)
    v = _unit(rng.normal(size=(n, 3)))
    v[:, 2] = np.abs(v[:, 2]) * 0.9 + 0.1
    v = _unit(v)
    return pf.Coordinates(v[:, 0], v[:, 1], v[:, 2], weights=np.ones(n))


def make_room(cfg, k, din, dout, bake=True):
    """the room of cfg rotated by k*90 degrees about z: every wall polygon, its up vector and
    its normal are rotated (exactly: the matrix has entries 0, 1, -1); wall order is kept"""
    c, s = [(1, 0), (0, 1), (-1, 0), (0, -1)][k % 4]
    R = np.array([[c, -s, 0.0], [s, c, 0.0], [0.0, 0.0, 1.0]])
    walls = S.shoebox(*cfg["dims"], off=cfg["offset"])
    rot = [geometry.Polygon(w.pts @ R.T, R @ w.up_vector, R @ w._normal) for w in walls]
    radi = sp.DirectionalRadiosityFast.from_polygon(rot, cfg["patch_size"])
    for w in range(6):
        tab = S.wall_table(cfg, w, din.csize, dout.csize)
        radi.set_wall_brdf([w], pf.FrequencyData(tab, cfg["freqs"]), din, dout)
    radi.set_air_attenuation(pf.FrequencyData(cfg["att"], cfg["freqs"]))
    if bake:
        radi.bake_geometry()
    return radi, R


def direction_tie_gap(radi, pos, recs):
    """smallest gap between the two nearest wall-direction samples over every lookup the pipeline
    makes (patch to patch both ways, source to patch, patch to receiver)"""
    ins = [np.atleast_2d(c.cartesian) for c in radi._brdf_incoming_directions]
    outs = [np.atleast_2d(c.cartesian) for c in radi._brdf_outgoing_directions]
    if ins[0].shape[0] < 2 and outs[0].shape[0] < 2:
        return np.inf
    cen = radi.patches_center
    wall = radi._patch_to_wall_ids
    gap = np.inf
    for i in range(len(cen)):
        others = [cen[j] for j in range(len(cen)) if j != i] + [np.asarray(r) for r in recs]
        v = _unit(np.array(others) - cen[i])
        gap = min(gap, oracle_index(outs[wall[i]], v)[1].min())
        others = [cen[j] for j in range(len(cen)) if j != i] + [np.asarray(pos)]
        v = _unit(np.array(others) - cen[i])
        gap = min(gap, oracle_index(ins[wall[i]], v)[1].min())
    return float(gap)


def scene_case(spec):
    rng = np.random.default_rng([spec["seed"], 5000 + spec["idx"]])
    out = new_out()
    multi = spec["idx"] % 3 == 1
    cfg = S.draw_config(rng, nb=int(rng.integers(1, 4)), multi_dir=False, max_patches=14,
                        att_zero=rng.random() < 0.3, offset=rng.random() < 0.5)
    K = int(rng.integers(1, 3))
    n_dir = int(rng.integers(2, 7)) if multi else 1
    n_rec = int(rng.integers(1, 3))
    for _ in range(20):
        din, dout = draw_dirs(rng, n_dir), draw_dirs(rng, n_dir)
        pos = S.draw_inside(rng, cfg["dims"], off=cfg["offset"])
        recs = [S.draw_inside(rng, cfg["dims"], off=cfg["offset"]) for _ in range(n_rec)]
        radi, _ = make_room(cfg, 0, din, dout, bake=False)
        if direction_tie_gap(radi, pos, recs) >= TIE_EPS:
            break
        out["rejected"] += 1
    else:
        return out
    radi.bake_geometry()
    centers = radi.patches_center
    dms, info = make_directivity(rng, "s%d" % spec["idx"], band_freqs=cfg["freqs"])
    ones, _ = make_directivity(np.random.default_rng([spec["seed"], 6000 + spec["idx"]]),
                               "o%d" % spec["idx"], band_freqs=cfg["freqs"], ones=True)
    recv = info["recv_true"]
    table = info["table"]
    if any(freq_tie(info["freqs"], f) for f in cfg["freqs"]):
        out["rejected"] = 1
        return out
    all_targets = np.vstack([centers, np.array(recs)])
    for _ in range(30):
        view, up = draw_frame(rng)
        w = oracle_dirs(pos, view, up, all_targets)
        idx, gap = oracle_index(recv, w)
        if gap.min() >= TIE_EPS:
            break
        out["rejected"] += 1
    else:
        return out
    c, dt, dur = P.draw_timing(rng, cfg, K, "long", radi, pos, recs)
    tag = dict(level="scene", seed=spec["seed"], idx=spec["idx"], dims=cfg["dims"], offset=list(cfg["offset"]),
               patch_size=cfg["patch_size"], n_patches=cfg["n_patches"], nb=cfg["nb"], n_dir=n_dir,
               src=pos.tolist(), view=view.tolist(), up=up.tolist(), recs=[r.tolist() for r in recs],
               n_recv=info["n_recv"], n_freq=info["n_freq"], sampling=info["kind"], c=c, dt=dt, dur=dur, K=K)
    out["sample"] = tag
    out["dist"]["scene_patches_%02d" % cfg["n_patches"]] = 1
    out["dist"]["scene_bands_%d" % cfg["nb"]] = 1
    out["dist"]["scene_outdirs_%d" % n_dir] = 1
    out["dist"]["scene_receivers_%d" % n_rec] = 1
    kf = np.array([int(np.argmin(np.abs(info["freqs"] - f))) for f in cfg["freqs"]])
    npch = cfg["n_patches"]
    fac_patch = table[idx[:npch]][:, kf]              # oracle factors [patch][band]
    fac_recv = table[idx[npch:]][:, kf]               # [receiver][band]
    rc = pf.Coordinates(np.array(recs)[:, 0], np.array(recs)[:, 1], np.array(recs)[:, 2])

    # ---- correspondence: implementation with the directivity vs model fed with its own lookup
    src = SoundSource(pos, view, up, dms)
    impl = P.impl_pipeline(radi, pos, c, dt, dur, K, recs, direct=True, source_obj=src)
    e0_dir = radi._energy_init_source.copy()
    ds_dir, bins_dir = radi.calculate_direct_sound(rc)
    tok = ori_tokens(Tok(), dms, view, up)
    tok.cmd("q_source_dirfac").vecs(centers).arr(cfg["freqs"]).vec(pos)
    for r in recs:
        tok.cmd("q_recv_dirfac").vecs(centers).arr(cfg["freqs"]).vec(pos).vec(r)
    res = run_driver(tok)
    m_dirfac = floats(res[0][1], (npch, cfg["nb"]))
    m_rdirfac = [floats(r[1]) for r in res[1:]]
    tok = P.model_session(radi, pos, c, dt, dur, K, recs, direct=True, dirfac=m_dirfac, rdirfac=m_rdirfac)
    mism, mu = P.compare_stages(radi, impl, run_driver(tok), K, recs, dur, dt)
    out["max_ulp"] = mu
    out["traces"] = 1
    for m in mism:
        m.update(case=tag)
        out["mismatches"].append(m)
    N = int(dur / dt)
    if np.any(np.asarray(bins_dir) >= N):
        out["dist"]["direct_sound_beyond_window"] = 1

    # ---- property statement on the implementation
    # (a) omnidirectional value times the table entry
    omni = P.impl_pipeline(radi, pos, c, dt, dur, K, recs, direct=True)
    e0_omni = radi._energy_init_source.copy()
    ds_omni, bins_omni = radi.calculate_direct_sound(rc)
    want = e0_omni * fac_patch[:, None, :]
    m = cmp_float(e0_dir, want, what="e0")
    if m:
        out["prop_failures"].append(dict(
            test="factor_e0", case=tag,
            what="initial patch energy with directivity is not the omnidirectional energy times the table "
                 "entry of the nearest measured direction/frequency: " + m))
    want = ds_omni * fac_recv
    m = cmp_float(ds_dir, want, what="direct sound")
    if m or not np.array_equal(bins_dir, bins_omni):
        out["prop_failures"].append(dict(
            test="factor_direct", case=tag,
            what="direct sound with directivity is not the omnidirectional direct sound times the table "
                 "entry of the nearest measured direction/frequency: %s" % m))
    # the reflected part scales patch-wise, so only K = 0 contributions are a plain product; compare the
    # direct-sound bin of a run whose reflected part is taken from the directive run itself
    refl = radi_collect(radi, src, c, dt, dur, K, rc, direct=False)
    with_direct = impl["mono"]
    for ri in range(n_rec):
        if bins_dir[ri] < N:
            got = with_direct[ri, :, bins_dir[ri]] - refl[ri, :, bins_dir[ri]]
            ref = ds_omni[ri] * fac_recv[ri]
            scale = np.maximum(np.abs(with_direct[ri, :, bins_dir[ri]]), np.abs(ref))
            if np.any(np.abs(got - ref) > 1e-9 * scale + 1e-300):
                out["prop_failures"].append(dict(
                    test="factor_direct_mono", case=tag, receiver=ri,
                    what="direct sound added by collect_energy_receiver_mono is %r, omnidirectional value times "
                         "table entry is %r" % (got.tolist(), ref.tolist())))

    # (b) no directivity / all-ones directivity reproduce the pf.Coordinates run bit for bit
    for name, obj in (("no_directivity", SoundSource(pos, view, up)),
                      ("unit_table", SoundSource(pos, view, up, ones))):
        run = P.impl_pipeline(radi, pos, c, dt, dur, K, recs, direct=True, source_obj=obj)
        e0_u = radi._energy_init_source
        ds_u, bins_u = radi.calculate_direct_sound(rc)
        bad = []
        if not np.array_equal(e0_u, e0_omni):
            bad.append("initial energy")
        if not np.array_equal(run["etc"], omni["etc"]):
            bad.append("exchange histogram")
        if not (np.array_equal(ds_u, ds_omni) and np.array_equal(bins_u, bins_omni)):
            bad.append("direct sound")
        if not np.array_equal(run["mono"], omni["mono"]):
            bad.append("receiver histogram with direct sound")
        if bad:
            out["prop_failures"].append(dict(
                test=name, case=tag,
                what="an oriented source %s does not reproduce the omnidirectional result exactly: %s differ"
                     % ("without directivity" if name == "no_directivity" else "with an all-ones directivity",
                        ", ".join(bad))))

    # (c) rotating source pose and room together (k*90 degrees about z) changes nothing
    k = int(rng.integers(1, 4))
    radi_r, R = make_room(cfg, k, din, dout)
    perm = match_patches(centers @ R.T, radi_r.patches_center)
    if perm is None:
        out["mismatches"].append(dict(stage="rotated room", case=tag,
                                      what="rotated room has different patch centres"))
    else:
        src_r = SoundSource(R @ pos, R @ view, R @ up, dms)
        radi_r.init_source_energy(src_r)
        e0_r = radi_r._energy_init_source[perm]
        radi_r.calculate_energy_exchange(c, dt, dur, 0, recalculate=True)
        rr = np.array(recs) @ R.T
        ds_r, bins_r = radi_r.calculate_direct_sound(pf.Coordinates(rr[:, 0], rr[:, 1], rr[:, 2]))
        m = cmp_float(e0_r, e0_dir, what="e0 of rotated scene")
        if m:
            out["prop_failures"].append(dict(
                test="corotate_e0", case=tag, quarter_turns=k,
                what="rotating source pose and room together changes the initial patch energy: " + m))
        m = cmp_float(ds_r, ds_dir, what="direct sound of rotated scene")
        if m:
            out["prop_failures"].append(dict(
                test="corotate_direct", case=tag, quarter_turns=k,
                what="rotating source pose, room and receivers together changes the direct sound: " + m))
    if len(set(idx.tolist())) >= 2 and np.ptp(fac_patch) > 0:
        out["nontrivial"].append(case_hash(tag))
    return out


def radi_collect(radi, src, c, dt, dur, K, rc, direct):
    radi.init_source_energy(src)
    radi.calculate_energy_exchange(c, dt, dur, K, recalculate=True)
    return radi.collect_energy_receiver_mono(rc, direct_sound=direct).time.copy()


def match_patches(want, have):
    """perm with have[perm[i]] == want[i] (1e-9), or None"""
    if want.shape != have.shape:
        return None
    d = np.linalg.norm(want[:, None, :] - have[None, :, :], axis=2)
    perm = np.argmin(d, axis=1)
    if np.any(d[np.arange(len(want)), perm] > 1e-9) or len(set(perm.tolist())) != len(want):
        return None
    return perm


# --------------------------------------------------------------------------
def run(res):
    quick = res.tier == "quick"
    n_lookup = 64 if quick else 960
    n_scene = 32 if quick else 320
    specs = [dict(seed=res.seed, idx=i) for i in range(n_scene)]
    for r in fw.run_parallel(scene_case, specs):
        res.absorb(r)
    specs = [dict(seed=res.seed, idx=i, n_targets=(24 if quick else 60)) for i in range(n_lookup)]
    for r in fw.run_parallel(lookup_case, specs):
        res.absorb(r)
    res.rule = ("lookup level: synthetic FreeFieldDirectivityTF files (6-200 measured directions: random unit "
                "vectors, elevation/azimuth grids, mixtures; 1-5 frequencies; cartesian or spherical positions; "
                "radius 1 or constant; random positive real table), random orthonormal view/up (30 % rescaled), "
                "random positions, targets at 0.05-30 m incl. exactly along measured directions and frame axes; "
                "scene level: shoebox rooms with 6-14 patches, 1-3 bands, 1 or 2-6 wall directions in general position, 1-2 "
                "receivers, order 1-2, window holding every arrival; non-trivial = at least two different "
                "measured directions are hit (scene: and two different factors); distinct by input hash")
    res.not_carried = NOT_CARRIED
    res.assumptions = [
        "find_nearest (KD-tree) = exhaustive first argmin of the squared Euclidean distance to the receiver "
        "positions as loaded by DirectivityMS; near-ties (< 1e-9) rejected",
        "the directivity table enters the model as real data (np.real of the loaded complex table; the "
        "synthetic files have zero imaginary part)",
        "form factors, visibility and point-to-patch shares enter the pipeline model as data (tied in C04/C05/C07)",
        "receiver histograms are long enough that no contribution is delayed beyond the end",
    ]


def replay(res, payload):
    for f in payload.get("failures", []) + payload.get("correspondence", []):
        case = f.get("case", {})
        if case.get("level") == "scene":
            res.absorb(scene_case(dict(seed=case["seed"], idx=case["idx"])))
        elif case.get("level") == "lookup":
            res.absorb(lookup_case(dict(seed=case["seed"], idx=case["idx"], n_targets=case["n_targets"])))
