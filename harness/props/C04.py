"""C04 -- initial source energy is the solid-angle share of each patch.

Correspondence: `pt_solution` (both modes), `_sphere_tangent_vector`, `_polygon_area`,
`_source2patch_energy_universal`, `_patch2receiver_energy_universal` against the extracted
Gallina model (Model/PtSolution.v).
Property tests on the implementation (never a stand-in for the theorems): range [0, 1/2),
closure (shares of a closed room sum to 1), refinement independence, exact zeros for hidden /
back-facing patches, an independent solid-angle formula (Van Oosterom-Strackee on a triangle
fan), invariance under vertex rotation / reversal, rigid motions and uniform scaling."""
import numpy as np
import pyfar as pf

from common import Tok, run_driver, floats, cmp_float, case_hash, ulp_dist
import framework as fw
import scenes as S

import sparrowpy as sp
from sparrowpy import geometry
from sparrowpy.form_factor import integration
from sparrowpy.form_factor import universal

THR = 1e-10          # decision threshold inside _sphere_tangent_vector (input constant of the model)
TOL = 1e-9           # tolerance of the property statement (absolute, on shares)
ABS_SHARE = 1e-11    # absolute head-room of the share comparison: np.dot uses FMA, the model does not;
#                      acos near +-1 amplifies that 1-ulp difference (bounded by the rejection rule below)
NEAR_THR = 1e-12     # reject when | |dot(v0,v1)| - 1e-10 | < NEAR_THR (branch decision not robust)
NEAR_ONE = 1e-9      # reject when an acos argument is within NEAR_ONE of +-1

NOT_CARRIED = [
    "0 <= share (positivity of the spherical angle excess of a convex spherical polygon): "
    "Girard / Gauss-Bonnet theorem, not in the installed libraries; exercised by the range search only",
    "shares of all patches of a closed room sum to 1 for every interior source position: "
    "Gauss-Bonnet for a tiling of the sphere; exercised by the closure search only",
    "the share of a wall does not depend on how finely it is subdivided (additivity of the angle excess "
    "under subdivision): same theorem; exercised by the refinement search only",
    "C04_vertex_order / C04_similarity are equalities in a commutative ring / ordered field; for the float "
    "list model the fold order and the rounding of sqrt/acos differ, so invariance holds only up to rounding "
    "(measured by the search at 1e-9)",
    "receiver-mode share under uniform scaling (it scales with 1/s^2; not part of the property) and "
    "invariance of _polygon_area under vertex rotation/reversal (needs planarity and convexity)",
    "the visibility decision itself (_check_point2patch_visibility) is an input of the model here; it is C07's subject",
]


# --------------------------------------------------------------------------
# independent reference: Van Oosterom-Strackee solid angle of a triangle fan
# --------------------------------------------------------------------------
def vos_share(point, pts):
    r = np.asarray(pts, dtype=np.longdouble) - np.asarray(point, dtype=np.longdouble)
    tot = np.longdouble(0)
    for k in range(1, len(r) - 1):
        a, b, c = r[0], r[k], r[k + 1]
        la, lb, lc = np.sqrt(a @ a), np.sqrt(b @ b), np.sqrt(c @ c)
        num = a @ np.cross(b, c)
        den = la * lb * lc + (a @ b) * lc + (a @ c) * lb + (b @ c) * la
        tot += 2 * np.arctan2(num, den)
    return float(abs(tot) / (4 * np.pi))


def newell_area(pts):
    """area of a planar polygon, independent of _polygon_area: half the norm of sum p_i x p_(i+1)"""
    p = np.asarray(pts, dtype=float) - np.asarray(pts[0], dtype=float)
    return 0.5 * float(np.linalg.norm(np.cross(p, np.roll(p, -1, axis=0)).sum(axis=0)))


# --------------------------------------------------------------------------
# implementation-side trace of pt_solution (what the code computes on the way)
# --------------------------------------------------------------------------
def impl_trace(point, pts):
    n = len(pts)
    Sph = np.zeros_like(pts)
    for i in range(n):
        Sph[i] = (pts[i] - point) / np.linalg.norm(pts[i] - point)
    t0 = np.array([geometry._sphere_tangent_vector(Sph[i], Sph[(i - 1) % n]) for i in range(n)])
    t1 = np.array([geometry._sphere_tangent_vector(Sph[i], Sph[(i + 1) % n]) for i in range(n)])
    nd = np.array([[np.dot(Sph[i], Sph[(i - 1) % n]), np.dot(Sph[i], Sph[(i + 1) % n])] for i in range(n)])
    ad = np.array([np.dot(t0[i], t1[i]) for i in range(n)])
    return Sph, t0, t1, nd, ad


def near_degenerate(nd, ad):
    if np.any(np.abs(np.abs(nd) - THR) < NEAR_THR):
        return "tangent_threshold"
    if not np.all(np.isfinite(ad)) or np.any(1 - np.abs(ad) < NEAR_ONE):
        return "acos_near_pm1"
    return None


def random_rotation(rng, allow_reflection=True):
    q, r = np.linalg.qr(rng.normal(size=(3, 3)))
    q = q * np.sign(np.diag(r))
    if not allow_reflection and np.linalg.det(q) < 0:
        q[:, 0] = -q[:, 0]
    return q


def draw_polygon(rng):
    """strictly convex planar polygon (vertices on an ellipse), 3-8 vertices, any orientation,
    either winding, any start vertex; point at 1 mm .. 5 m from the plane, on either side"""
    n = int(rng.integers(3, 9))
    th = 2 * np.pi * (np.arange(n) + rng.uniform(0.15, 0.85, n)) / n + rng.uniform(0, 2 * np.pi)
    a, b = rng.uniform(0.2, 2.0, 2)
    flat = np.stack([a * np.cos(th), b * np.sin(th), np.zeros(n)], axis=1)
    if rng.random() < 0.5:
        flat = flat[::-1]
    flat = np.roll(flat, int(rng.integers(0, n)), axis=0)
    h = float(10 ** rng.uniform(-3, 0.7)) * (1 if rng.random() < 0.5 else -1)
    ploc = np.array([rng.uniform(-2.5, 2.5), rng.uniform(-2.5, 2.5), h])
    if rng.random() < 0.25:       # exactly above the inside of the polygon
        w = rng.dirichlet(np.ones(n))
        ploc[:2] = (w[:, None] * flat[:, :2]).sum(axis=0)
    R = random_rotation(rng)
    t = rng.uniform(-5, 5, 3)
    pts = np.ascontiguousarray(flat @ R.T + t)
    point = R @ ploc + t
    return pts, point, abs(h)


def ptsol_tokens(tok, point, pts):
    tok.cmd("q_ptsol").f(THR).vec(point).vecs(pts)
    return tok


def parse_ptsol(tokens):
    n = int(tokens[0])
    v = floats(tokens[1:])
    Sph = v[:3 * n].reshape(n, 3)
    ang = v[3 * n:4 * n]
    asum, exc, area, s_src, s_rcv = v[4 * n:4 * n + 5]
    return dict(Sph=Sph, ang=ang, asum=asum, excess=exc, area=area, src=s_src, rcv=s_rcv)


def cmp_share(a, b, what):
    a, b = float(a), float(b)
    if not (np.isfinite(a) and np.isfinite(b)) or abs(a - b) > 1e-9 * max(abs(a), abs(b)) + ABS_SHARE:
        return "%s: impl=%r model=%r" % (what, a, b)
    return None


def new_out():
    return {"evaluations": 1, "mismatches": [], "prop_failures": [], "dist": {}, "nontrivial": []}


# --------------------------------------------------------------------------
# 1. random polygons: correspondence + per-polygon property tests
# --------------------------------------------------------------------------
def poly_case(spec):
    rng = np.random.default_rng([spec["seed"], 4000 + spec["idx"]])
    out = new_out()
    pts, point, h = draw_polygon(rng)
    n = len(pts)
    tag = dict(kind="poly", seed=spec["seed"], idx=spec["idx"], n=n, pts=pts.tolist(), point=point.tolist())
    Sph, t0, t1, nd, ad = impl_trace(point, pts)
    why = near_degenerate(nd, ad)
    if why:
        out["rejected"] = 1
        out["dist"]["rejected_" + why] = 1
        return out
    out["sample"] = dict(kind="poly", seed=spec["seed"], idx=spec["idx"], n=n, height=h)
    out["dist"]["poly_n%d" % n] = 1
    out["dist"]["poly_height_1e%d" % int(np.floor(np.log10(h)))] = 1

    src = integration.pt_solution(point=point, patch_points=pts, mode="source")
    rcv = integration.pt_solution(point=point, patch_points=pts, mode="receiver")
    area = geometry._polygon_area(pts)

    # ---- correspondence
    tok = ptsol_tokens(Tok(), point, pts)
    pairs = [(Sph[i], Sph[(i - 1) % n]) for i in range(n)] + [(Sph[i], Sph[(i + 1) % n]) for i in range(n)]
    tok.cmd("q_tangent").f(THR).i(len(pairs))
    for (a, b) in pairs:
        tok.vec(a).vec(b)
    res = run_driver(tok)
    m = parse_ptsol(res[0][1])
    tan = floats(res[1][1], (2 * n, 3))
    checks = [
        cmp_float(Sph, m["Sph"], what="vertices on the unit sphere"),
        cmp_float(np.concatenate([t0, t1]), tan, rtol=1e-7, what="_sphere_tangent_vector"),
        cmp_float(np.arccos(ad), m["ang"], rtol=1e-6, what="interior angles"),
        cmp_float(np.arccos(ad).sum(), m["asum"], what="interior_angle_sum"),
        cmp_float(area, m["area"], what="_polygon_area"),
        cmp_share(src, m["src"], "pt_solution(source)"),
        cmp_share(rcv * area, m["rcv"] * m["area"], "pt_solution(receiver)*area"),
    ]
    for c in checks:
        if c:
            out["mismatches"].append(dict(stage="pt_solution", what=c, case=tag))
    out["traces"] = 1
    if not any(checks):
        out["max_ulp"] = ulp_dist(np.arccos(ad).sum(), m["asum"])

    # ---- property statement on the implementation
    def fail(test, what, **kw):
        out["prop_failures"].append(dict(test=test, what=what, case=tag, **kw))

    if not (0.0 <= src < 0.5):
        fail("range", "source share %.17g outside [0, 1/2)" % src, value=float(src))
    ref = vos_share(point, pts)
    if not abs(src - ref) <= TOL:
        fail("solid_angle", "share %.15g differs from the Van Oosterom-Strackee solid-angle share %.15g"
             % (src, ref), value=float(src), reference=ref)
    area_ref = newell_area(pts)
    if not abs(rcv * area_ref / 4 - ref) <= TOL:
        fail("solid_angle_receiver", "receiver factor * polygon area / 4 = %.15g differs from the solid-angle share %.15g"
             % (rcv * area_ref / 4, ref), value=float(rcv * area_ref / 4), reference=ref)
    # vertex order: cyclic shift and reversal
    k = int(rng.integers(1, n))
    for name, q in (("rotate", np.roll(pts, k, axis=0)), ("reverse", np.ascontiguousarray(pts[::-1]))):
        v = integration.pt_solution(point=point, patch_points=q, mode="source")
        if not abs(v - src) <= TOL:
            fail("vertex_" + name, "share changes from %.15g to %.15g under vertex %s" % (src, v, name),
                 value=float(v), base=float(src))
    # rigid motion (rotation or reflection + translation) and uniform scaling
    R = random_rotation(rng)
    t = rng.uniform(-5, 5, 3)
    s = float(10 ** rng.uniform(-1, 1))
    for name, q, p in (("rigid", pts @ R.T + t, R @ point + t), ("translate", pts + t, point + t),
                       ("scale", s * pts, s * point)):
        q = np.ascontiguousarray(q)
        _, _, _, nd2, ad2 = impl_trace(p, q)
        if near_degenerate(nd2, ad2):
            out["dist"]["transformed_copy_near_degenerate"] = out["dist"].get("transformed_copy_near_degenerate", 0) + 1
            continue
        v = integration.pt_solution(point=p, patch_points=q, mode="source")
        if not abs(v - src) <= TOL:
            fail("similarity_" + name, "share changes from %.15g to %.15g under %s" % (src, v, name),
                 value=float(v), base=float(src))
        if name != "scale":
            vr = integration.pt_solution(point=p, patch_points=q, mode="receiver")
            if not abs(vr - rcv) <= TOL * max(1.0, abs(rcv)):
                fail("similarity_receiver_" + name, "receiver factor changes from %.15g to %.15g under %s"
                     % (rcv, vr, name), value=float(vr), base=float(rcv))
    out["nontrivial"].append(case_hash(pts, point))
    return out


# --------------------------------------------------------------------------
# 2. _sphere_tangent_vector directly, both branches, plus octant triangles (else-branch in pt_solution)
# --------------------------------------------------------------------------
def tangent_case(spec):
    rng = np.random.default_rng([spec["seed"], 5000 + spec["idx"]])
    out = new_out()
    pairs = []
    kinds = []
    for _ in range(24):
        u = rng.normal(size=3)
        u /= np.linalg.norm(u)
        w = rng.normal(size=3)
        mode = int(rng.integers(0, 5))
        if mode == 0:       # generic unit vectors
            v = w / np.linalg.norm(w)
        elif mode == 1:     # orthogonal up to rounding -> else branch
            v = np.cross(u, w)
            v /= np.linalg.norm(v)
        elif mode == 2:     # exactly orthogonal axis vectors, not normalised
            ax = rng.permutation(3)
            u = np.zeros(3); v = np.zeros(3)
            u[ax[0]] = rng.uniform(-3, 3)
            v[ax[1]] = rng.uniform(-3, 3)
        elif mode == 3:     # just above / below the threshold
            p = np.cross(u, w)
            p /= np.linalg.norm(p)
            eps = THR * float(rng.choice([0.3, 0.8, 1.3, 3.0, 100.0])) * (1 if rng.random() < 0.5 else -1)
            v = p + eps * u
            v /= np.linalg.norm(v)
        else:               # general vectors of any length
            u = u * rng.uniform(0.1, 5)
            v = w
        d = float(np.dot(u, v))
        if abs(abs(d) - THR) < NEAR_THR:
            out["rejected"] = out.get("rejected", 0) + 1
            continue
        pairs.append((u, v))
        kinds.append("then" if abs(d) > THR else "else")
    tag = dict(kind="tangent", seed=spec["seed"], idx=spec["idx"])
    out["sample"] = tag
    for kd in kinds:
        out["dist"]["tangent_branch_" + kd] = out["dist"].get("tangent_branch_" + kd, 0) + 1
    impl = np.array([geometry._sphere_tangent_vector(a, b) for (a, b) in pairs])
    tok = Tok().cmd("q_tangent").f(THR).i(len(pairs))
    for (a, b) in pairs:
        tok.vec(a).vec(b)
    mod = floats(run_driver(tok)[0][1], (len(pairs), 3))
    for i, (a, b) in enumerate(pairs):
        # the then-branch subtracts nearly equal vectors when v1 ~ v0: compare absolutely (unit vectors)
        if not np.all(np.abs(impl[i] - mod[i]) <= 1e-9 + 1e-12 / max(np.linalg.norm(b - a), 1e-3)):
            out["mismatches"].append(dict(stage="_sphere_tangent_vector", case=dict(tag, v0=a.tolist(), v1=b.tolist()),
                                          what="impl=%r model=%r" % (impl[i].tolist(), mod[i].tolist())))
        # property of a tangent: unit length, orthogonal to v0 (within the code's own 1e-10 branch slack)
        nv0 = np.linalg.norm(a)
        if abs(np.linalg.norm(impl[i]) - 1) > 1e-9 or abs(np.dot(impl[i], a)) / nv0 > 1e-9 + THR / max(nv0 * np.linalg.norm(b), 1e-300) * 1.01:
            # only meaningful when v1 is not (anti)parallel to v0
            if np.linalg.norm(np.cross(a, b)) > 1e-6 * nv0 * np.linalg.norm(b):
                out["prop_failures"].append(dict(test="tangent_unit_orthogonal", case=dict(tag, v0=a.tolist(), v1=b.tolist()),
                                                 what="tangent %r is not a unit vector orthogonal to v0" % (impl[i].tolist(),)))
    out["traces"] = len(pairs)

    # octant triangle: three mutually orthogonal edges from the point -> share is exactly 1/8
    p = np.round(rng.uniform(-4, 4, 3) * 8) / 8           # dyadic: the differences below are exact
    ax = rng.permutation(3)
    sg = rng.choice([-1.0, 1.0], 3)
    ln = np.round(rng.uniform(0.25, 4, 3) * 16) / 16
    tri = np.array([p + sg[k] * ln[k] * np.eye(3)[ax[k]] for k in range(3)])
    src = integration.pt_solution(point=p, patch_points=tri, mode="source")
    rcv = integration.pt_solution(point=p, patch_points=tri, mode="receiver")
    m = parse_ptsol(run_driver(ptsol_tokens(Tok(), p, tri))[0][1])
    otag = dict(tag, octant=tri.tolist(), point=p.tolist())
    for c in (cmp_share(src, m["src"], "pt_solution(source), octant triangle"),
              cmp_share(rcv, m["rcv"], "pt_solution(receiver), octant triangle")):
        if c:
            out["mismatches"].append(dict(stage="pt_solution(else-branch)", what=c, case=otag))
    if not abs(src - 0.125) <= TOL:
        out["prop_failures"].append(dict(test="octant", value=float(src), case=otag,
                                         what="an octant triangle subtends 1/8 of the sphere, share is %.15g" % src))
    out["dist"]["octant_triangle"] = 1
    out["traces"] += 1
    out["nontrivial"].append(case_hash(tag))
    return out


# --------------------------------------------------------------------------
# 3. rooms: the two universal kernels, closure, range, refinement, hidden / back-facing zeros
# --------------------------------------------------------------------------
def wall_polys(dims, off):
    return S.shoebox(*dims, off=off)


def build_room(polys, ps):
    return sp.DirectionalRadiosityFast.from_polygon(polys, ps)


def patches_near_degenerate(pos, patches_points):
    for pts in patches_points:
        _, _, _, nd, ad = impl_trace(pos, pts)
        w = near_degenerate(nd, ad)
        if w:
            return w
    return None


def draw_source_inside(rng, dims, off):
    """interior position, at least 1 mm from every wall; one case in three hugs a wall or a corner"""
    pos = np.array([off[k] + rng.uniform(0.05, 0.95) * dims[k] for k in range(3)])
    u = rng.random()
    if u < 0.34:
        for k in rng.permutation(3)[: int(rng.integers(1, 4))]:
            d = float(10 ** rng.uniform(-3, -1))
            pos[k] = off[k] + (d if rng.random() < 0.5 else dims[k] - d)
    return pos


def segment_hits_rect(a, b, rect, margin):
    """does the open segment a-b cross the planar convex polygon `rect`?  returns True / False / None
    (None = within `margin` of the polygon's boundary or plane: undecided)"""
    n = np.cross(rect[1] - rect[0], rect[2] - rect[0])
    n = n / np.linalg.norm(n)
    da, db = np.dot(a - rect[0], n), np.dot(b - rect[0], n)
    if abs(da) < margin or abs(db) < margin:
        return None
    if da * db > 0:
        return False
    x = a + (b - a) * (da / (da - db))
    dmin = np.inf
    m = len(rect)
    sgn = []
    for i in range(m):
        e = rect[(i + 1) % m] - rect[i]
        s = np.dot(np.cross(e, x - rect[i]), n) / np.linalg.norm(e)
        sgn.append(s)
    sgn = np.array(sgn)
    if np.min(np.abs(sgn)) < margin:
        return None
    return bool(np.all(sgn > 0) or np.all(sgn < 0))


def kernels(radi, pos, att):
    vis = geometry._check_point2patch_visibility(
        eval_point=pos, patches_center=radi.patches_center,
        surf_points=radi.walls_points, surf_normal=radi.walls_normal)
    nb = 1 if att is None else len(att)
    e, d = universal._source2patch_energy_universal(
        pos, radi.patches_center, radi.patches_points, vis, att, nb)
    r = universal._patch2receiver_energy_universal(pos, radi.patches_points, vis)
    return vis, e, d, r


def kernel_correspondence(out, radi, pos, att, vis, e, d, r, tag):
    npch = radi.n_patches
    attv = np.zeros(0) if att is None else att
    nb = 1 if att is None else len(att)
    tok = Tok().cmd("q_s2p").f(THR).vec(pos).vecs(radi.patches_center).vecs2(radi.patches_points)
    tok.arr(vis, "b").arr(attv if att is not None else np.zeros(1))
    tok.cmd("q_p2r").f(THR).vec(pos).vecs2(radi.patches_points).arr(vis, "b")
    res = run_driver(tok)
    v = floats(res[0][1])
    me = v[:npch * nb].reshape(npch, nb)
    md = v[npch * nb:]
    mr = floats(res[1][1])
    areas = np.array([geometry._polygon_area(p) for p in radi.patches_points])
    bad = []
    if ((e == 0) != (me == 0)).any() or np.any(np.abs(e - me) > 1e-9 * np.maximum(np.abs(e), np.abs(me)) + ABS_SHARE) \
            or not np.all(np.isfinite(e)):
        j = int(np.argmax(np.max(np.abs(e - me) + ((e == 0) != (me == 0)), axis=1)))
        bad.append("_source2patch_energy_universal energy: patch %d impl=%r model=%r" % (j, e[j].tolist(), me[j].tolist()))
    bad.append(cmp_float(d, md, what="_source2patch_energy_universal distance"))
    ra, mra = r * areas, mr * areas
    if ((r == 0) != (mr == 0)).any() or np.any(np.abs(ra - mra) > 1e-9 * np.maximum(np.abs(ra), np.abs(mra)) + 4 * ABS_SHARE) \
            or not np.all(np.isfinite(r)):
        j = int(np.argmax(np.abs(ra - mra) + ((r == 0) != (mr == 0))))
        bad.append("_patch2receiver_energy_universal: patch %d impl=%r model=%r" % (j, float(r[j]), float(mr[j])))
    for b in bad:
        if b:
            out["mismatches"].append(dict(stage="universal kernels", what=b, case=tag))
    out["traces"] = out.get("traces", 0) + 1


def room_case(spec):
    rng = np.random.default_rng([spec["seed"], 6000 + spec["idx"]])
    out = new_out()
    dims, ps, npat = S.draw_room(rng, max_patches=spec["max_patches"])
    off = tuple(float(x) for x in np.round(rng.uniform(-3, 3, 3), 2)) if rng.random() < 0.5 else (0.0, 0.0, 0.0)
    pos = draw_source_inside(rng, dims, off)
    wall_gap = float(min(min(pos[k] - off[k], off[k] + dims[k] - pos[k]) for k in range(3)))
    tag = dict(kind="room", seed=spec["seed"], idx=spec["idx"], max_patches=spec["max_patches"],
               dims=dims, offset=list(off), patch_size=ps, n_patches=npat, src=pos.tolist())
    polys = wall_polys(dims, off)
    radi = build_room(polys, ps)
    why = patches_near_degenerate(pos, radi.patches_points)
    if why:
        out["rejected"] = 1
        out["dist"]["rejected_room_" + why] = 1
        return out
    out["sample"] = tag
    out["dist"]["room_patches_%02d" % (10 * (npat // 10))] = 1
    out["dist"]["room_wall_gap_1e%d" % int(np.floor(np.log10(wall_gap)))] = 1

    def fail(test, what, **kw):
        out["prop_failures"].append(dict(test=test, what=what, case=tag, **kw))

    # zero attenuation: raw shares
    vis, e, d, r = kernels(radi, pos, np.zeros(1))
    kernel_correspondence(out, radi, pos, np.zeros(1), vis, e, d, r, tag)
    share = e[:, 0]
    if not np.all((share >= 0) & (share < 0.5)):
        j = int(np.argmax(~((share >= 0) & (share < 0.5))))
        fail("range", "share %.17g of patch %d outside [0, 1/2)" % (share[j], j), patch=j, value=float(share[j]))
    tot = float(share.sum())
    if not abs(tot - 1.0) <= TOL:
        fail("closure", "shares of the closed room sum to %.15g, not 1 (source %.4g m from the nearest wall)"
             % (tot, wall_gap), value=tot)
    # the air_attenuation=None path and a non-zero attenuation vector
    att = np.round(rng.uniform(0.0, 0.08, int(rng.integers(1, 4))), 4)
    vis2, e2, d2, r2 = kernels(radi, pos, att)
    kernel_correspondence(out, radi, pos, att, vis2, e2, d2, r2, tag)
    visn, en, dn, rn = kernels(radi, pos, None)
    kernel_correspondence(out, radi, pos, None, visn, en, dn, rn, tag)
    # dividing the attenuation out recovers the shares
    dref = np.linalg.norm(radi.patches_center - pos[None, :], axis=1)
    back = e2 / np.exp(-att[None, :] * dref[:, None])
    if not np.all(np.abs(back - share[:, None]) <= TOL) or not np.all(np.abs(d2 - dref) <= 1e-9 * dref):
        fail("attenuation_factor", "energy / exp(-m |source - patch centre|) differs from the solid-angle share "
             "(or the reported distance is not |source - patch centre|)",
             value=float(np.max(np.abs(back - share[:, None]))))
    # against the independent solid-angle formula
    ref = np.array([vos_share(pos, p) for p in radi.patches_points])
    if not np.all(np.abs(share - ref) <= TOL):
        j = int(np.argmax(np.abs(share - ref)))
        fail("solid_angle", "share %.15g of patch %d differs from the Van Oosterom-Strackee share %.15g"
             % (share[j], j, ref[j]), patch=j, value=float(share[j]), reference=float(ref[j]))

    # refinement independence: per-wall sums for a second patch size
    wall = radi._patch_to_wall_ids
    per_wall = np.array([share[wall == w].sum() for w in range(6)])
    for _ in range(20):
        ps2 = float(np.round(rng.uniform(0.3, 1.0) * min(dims), 3))
        n2 = [int(x / ps2) for x in dims]
        if all(S.away_from_int(x / ps2, 1e-3) for x in dims) and min(n2) >= 1 and n2 != [int(x / ps) for x in dims] \
                and 2 * (n2[0] * n2[1] + n2[0] * n2[2] + n2[1] * n2[2]) <= 3 * spec["max_patches"]:
            break
    else:
        ps2 = None
    if ps2 is not None:
        radi2 = build_room(polys, ps2)
        if patches_near_degenerate(pos, radi2.patches_points) is None:
            vis3, e3, d3, r3 = kernels(radi2, pos, np.zeros(1))
            wall2 = radi2._patch_to_wall_ids
            per_wall2 = np.array([e3[wall2 == w, 0].sum() for w in range(6)])
            out["dist"]["refinement_pairs"] = 1
            if not np.all(np.abs(per_wall - per_wall2) <= TOL):
                w = int(np.argmax(np.abs(per_wall - per_wall2)))
                fail("refinement", "share of wall %d is %.15g with patch size %g and %.15g with patch size %g"
                     % (w, per_wall[w], ps, per_wall2[w], ps2), wall=w, patch_size_2=ps2)
            if not abs(float(e3[:, 0].sum()) - 1.0) <= TOL:
                fail("closure", "shares of the closed room sum to %.15g, not 1 (patch size %g)"
                     % (float(e3[:, 0].sum()), ps2), value=float(e3[:, 0].sum()), patch_size_2=ps2)
    out["nontrivial"].append(case_hash(tag))
    return out


def hidden_case(spec):
    """source outside a closed shoebox (every patch is back-facing or hidden behind a back-facing wall)
    or a shoebox with a one-sided interior blocker rectangle"""
    rng = np.random.default_rng([spec["seed"], 8000 + spec["idx"]])
    out = new_out()
    dims, ps, npat = S.draw_room(rng, max_patches=spec["max_patches"])
    off = (0.0, 0.0, 0.0)
    polys = wall_polys(dims, off)
    outside = spec["idx"] % 2 == 0
    tag = dict(kind="hidden", seed=spec["seed"], idx=spec["idx"], max_patches=spec["max_patches"],
               dims=dims, patch_size=ps, outside=outside)

    def fail(test, what, **kw):
        out["prop_failures"].append(dict(test=test, what=what, case=tag, **kw))

    if outside:
        pos = np.array([rng.uniform(-0.5, 1.5) * dims[k] for k in range(3)])
        ks = rng.permutation(3)[: int(rng.integers(1, 4))]
        for k in ks:
            d = float(10 ** rng.uniform(-2, 0.5))
            pos[k] = -d if rng.random() < 0.5 else dims[k] + d
        for k in range(3):          # stay >= 1 mm away from every wall plane
            if min(abs(pos[k]), abs(pos[k] - dims[k])) < 1e-3:
                pos[k] += 0.01
        if all(0 <= pos[k] <= dims[k] for k in range(3)):
            out["rejected"] = 1
            return out
        radi = build_room(polys, ps)
        if patches_near_degenerate(pos, radi.patches_points):
            out["rejected"] = 1
            return out
        tag["src"] = pos.tolist()
        expect_zero = np.ones(radi.n_patches, dtype=bool)
        expect_pos = np.zeros(radi.n_patches, dtype=bool)
        out["dist"]["hidden_source_outside"] = 1
    else:
        # blocker: axis-aligned rectangle inside the room, normal along axis k, facing +k or -k
        k = int(rng.integers(0, 3))
        i1, i2 = [a for a in range(3) if a != k]
        lo1, hi1 = rng.uniform(0.1, 0.4) * dims[i1], rng.uniform(0.6, 0.9) * dims[i1]
        lo2, hi2 = rng.uniform(0.1, 0.4) * dims[i2], rng.uniform(0.6, 0.9) * dims[i2]
        ck = rng.uniform(0.3, 0.7) * dims[k]
        corners = []
        for (u, v) in ((lo1, lo2), (hi1, lo2), (hi1, hi2), (lo1, hi2)):
            c = np.zeros(3); c[k] = ck; c[i1] = u; c[i2] = v
            corners.append(c.tolist())
        sign = 1.0 if rng.random() < 0.5 else -1.0
        nrm = np.zeros(3); nrm[k] = sign
        up = np.zeros(3); up[i1] = 1.0
        blocker = geometry.Polygon(corners, up.tolist(), nrm.tolist())
        pos = np.array([rng.uniform(0.1, 0.9) * dims[a] for a in range(3)])
        if abs(pos[k] - ck) < 0.05:
            out["rejected"] = 1
            return out
        psb = min(ps, 0.9 * min(hi1 - lo1, hi2 - lo2))
        radi = build_room(polys + [blocker], psb)
        if patches_near_degenerate(pos, radi.patches_points):
            out["rejected"] = 1
            return out
        tag.update(src=pos.tolist(), blocker=corners, blocker_normal=nrm.tolist(), patch_size=psb)
        rect = np.array(corners)
        wall = radi._patch_to_wall_ids
        expect_zero = np.zeros(radi.n_patches, dtype=bool)
        expect_pos = np.zeros(radi.n_patches, dtype=bool)
        for j in range(radi.n_patches):
            c = radi.patches_center[j]
            if wall[j] == 6:
                front = np.dot(pos - c, nrm) > 0
                expect_zero[j] = not front
                expect_pos[j] = front
            else:
                hit = segment_hits_rect(pos, c, rect, 1e-3)
                if hit is None:
                    out["dist"]["hidden_undecided_patches"] = out["dist"].get("hidden_undecided_patches", 0) + 1
                elif hit:
                    expect_zero[j] = True
                else:
                    expect_pos[j] = True
        out["dist"]["hidden_blocker_room"] = 1
        out["dist"]["hidden_blocker_patches_hidden"] = int(expect_zero.sum())
    out["sample"] = tag
    att = np.round(rng.uniform(0.0, 0.05, 2), 4)
    vis, e, d, r = kernels(radi, pos, att)
    kernel_correspondence(out, radi, pos, att, vis, e, d, r, tag)
    nz = expect_zero & (np.any(e != 0, axis=1) | (d != 0) | (r != 0))
    if nz.any():
        j = int(np.argmax(nz))
        fail("hidden_zero", "patch %d (centre %s) is back-facing or hidden from the source but receives energy %r "
             "(distance %r, receiver factor %r)" % (j, radi.patches_center[j].tolist(), e[j].tolist(), float(d[j]), float(r[j])),
             patch=j)
    zp = expect_pos & ~np.all(e > 0, axis=1)
    if zp.any():
        j = int(np.argmax(zp))
        fail("visible_positive", "patch %d (centre %s) faces the source with a free line of sight but receives %r"
             % (j, radi.patches_center[j].tolist(), e[j].tolist()), patch=j)
    # the same through the object's own stage, on an object that served another source before: a source
    # at the same place except for the coordinate(s) that put it outside / on the other side of the blocker
    pos_first = pos.copy()
    if outside:
        for kk in range(3):
            if not (0 <= pos[kk] <= dims[kk]):
                pos_first[kk] = float(rng.uniform(0.25, 0.75)) * dims[kk]
    else:
        pos_first[k] = ck + (ck - pos[k]) * 0.5 if 0.05 * dims[k] < ck + (ck - pos[k]) * 0.5 < 0.95 * dims[k] \
            else float(rng.uniform(0.1, 0.9)) * dims[k]
    obj = build_room(polys if outside else polys + [blocker], ps if outside else psb)
    obj.init_source_energy(pf.Coordinates(*pos_first))
    obj.init_source_energy(pf.Coordinates(*pos))
    e_obj = np.asarray(obj._energy_init_source)
    nz2 = expect_zero & np.any(e_obj.reshape(obj.n_patches, -1) != 0, axis=1)
    if nz2.any():
        j = int(np.argmax(nz2))
        fail("hidden_zero_after_other_source",
             "init_source_energy on an object that served the source %s before: patch %d (centre %s) is back-facing or "
             "hidden from the new source %s but holds initial energy %r" % (
                 pos_first.tolist(), j, obj.patches_center[j].tolist(), pos.tolist(),
                 e_obj[j].reshape(-1)[:4].tolist()), patch=j, first_source=pos_first.tolist())
    fresh = build_room(polys if outside else polys + [blocker], ps if outside else psb)
    fresh.init_source_energy(pf.Coordinates(*pos))
    if not np.array_equal(np.asarray(fresh._energy_init_source), e_obj):
        fail("hidden_zero_after_other_source",
             "initial energies after serving another source first differ from a fresh object's (max abs %.3g)"
             % float(np.abs(np.asarray(fresh._energy_init_source) - e_obj).max()), first_source=pos_first.tolist())
    if expect_zero.any():
        out["nontrivial"].append(case_hash(tag))
    return out


def collinear_probe(seed, n=200):
    """INFORMATIONAL, never an alarm: weakly convex polygons (an extra vertex on an edge) are outside
    the general-position quantifier; there an acos argument can round below -1 and numpy returns nan."""
    rng = np.random.default_rng([seed, 9000])
    nan = wrong = 0
    first = None
    with np.errstate(all="ignore"):
        for _ in range(n):
            a, b = rng.uniform(0.3, 3, 2)
            t = rng.uniform(0.1, 0.9)
            poly = np.array([[0, 0, 0], [a * t, 0, 0], [a, 0, 0], [a, b, 0], [0, b, 0]], float)
            p = np.array([rng.uniform(-1, 4), rng.uniform(-1, 4), 10 ** rng.uniform(-3, 0.5)])
            v = integration.pt_solution(point=p, patch_points=poly, mode="source")
            if not np.isfinite(v):
                nan += 1
                first = first or dict(point=p.tolist(), polygon=poly.tolist())
            elif abs(v - vos_share(p, poly)) > TOL:
                wrong += 1
    return ("probe (informational): %d pentagons with a vertex on an edge (weakly convex, excluded from the "
            "quantifier): pt_solution returned nan for %d and was off by more than 1e-9 for %d; first nan input: %r"
            % (n, nan, wrong, first))


CASES = {"poly": poly_case, "tangent": tangent_case, "room": room_case, "hidden": hidden_case}


def run(res):
    quick = res.tier == "quick"
    n_poly, n_tan, n_room, n_hidden = (1200, 64, 48, 48) if quick else (20000, 800, 600, 600)
    mp = 40 if quick else 70
    for r in fw.run_parallel(poly_case, [dict(seed=res.seed, idx=i) for i in range(n_poly)]):
        res.absorb(r)
    for r in fw.run_parallel(tangent_case, [dict(seed=res.seed, idx=i) for i in range(n_tan)]):
        res.absorb(r)
    for r in fw.run_parallel(room_case, [dict(seed=res.seed, idx=i, max_patches=mp) for i in range(n_room)]):
        res.absorb(r)
    for r in fw.run_parallel(hidden_case, [dict(seed=res.seed, idx=i, max_patches=mp) for i in range(n_hidden)]):
        res.absorb(r)
    res.rule = ("(a) strictly convex planar polygons with 3-8 vertices on a random ellipse, any orientation (incl. "
                "reflections), either winding, any start vertex, point 1 mm - 5 m from the plane on either side; "
                "(b) direct _sphere_tangent_vector inputs in both branches and octant triangles (else-branch inside "
                "pt_solution); (c) shoebox rooms (sides 1-6 m, 6-%d patches) with interior sources down to 1 mm from a "
                "wall, three attenuation settings incl. None, a second patch size; (d) sources outside the room and rooms "
                "with a one-sided interior blocker.  Rejected: | |dot(v0,v1)| - 1e-10 | < 1e-12 or an acos argument "
                "within 1e-9 of +-1.  Every accepted case is non-trivial; distinct by input hash" % mp)
    res.notes.append(collinear_probe(res.seed))
    res.not_carried = NOT_CARRIED
    res.assumptions = [
        "the point-to-patch visibility vector is computed by /repo's _check_point2patch_visibility and enters the "
        "model as data (C07); hidden/back-facing expectations in the search come from an independent segment-polygon test",
        "np.dot / np.linalg.norm use fused multiply-add on this machine, the extracted model does not: float outputs are "
        "compared at rel. 1e-9 (+1e-11 absolute on shares, where sum - (n-2)pi cancels), not at 0 ulp",
        "the 1e-10 threshold of _sphere_tangent_vector is passed to the model by the driver as a float constant",
    ]


def replay(res, payload):
    for f in payload.get("failures", []) + payload.get("correspondence", []):
        case = f.get("case", {})
        kind = case.get("kind")
        if kind in CASES:
            spec = dict(seed=case["seed"], idx=case["idx"])
            if "max_patches" in case:
                spec["max_patches"] = case["max_patches"]
            res.absorb(CASES[kind](spec))
