"""C05 -- form factors obey bounds, reciprocity, closure and similarity invariance.

Correspondence: `_sample_boundary_regular`, `load_stokes_entries`, `_newton_cotes_4th`,
`stokes_integration`, `_coincidence_check`, the branch of `universal_form_factor` on random
pairs of convex planar patches; `patch2patch_ff_universal` + the i<j rule of
`_form_factors_with_directivity_dim` on baked shoebox rooms.  The Nusselt integrator is not
modelled: its outputs are handed to the model as data.

Property statement on the implementation: bounds, exact zeros for invisible pairs, reciprocity of
the full matrix, row sums of closed rooms, invariance under translation / rotation / uniform
scaling of a pair.
"""
import numpy as np

from common import Tok, run_driver, floats, ints, cmp_float, cmp_exact, case_hash, ulp_dist
import framework as fw
import scenes as S

from sparrowpy.form_factor import integration as I
from sparrowpy.form_factor import universal as U
import sparrowpy.geometry as G
from sparrowpy.classes import RadiosityFast as RF

CUT = 0.0           # literal in stokes_integration (1e-3 before fix cfd1b2b)
THRES = 1e-6        # default of _coincidence_check
# "unchanged": equal up to the rounding of the integrators.  The contour sums cancel by a factor
# ~ (distance/side)^2 (<= ~1e3 for the generated pairs), coordinates reach 1e3..1e4 m after scaling /
# translation, so rounding stays below ~1e-10 relative; measured maximum on the unchanged code
# with the cut-off inactive: < 1e-8 (12000 transformed pairs, thorough tier).  1e-6 relative leaves 2 orders of margin; the
# absolute term covers pairs whose exact form factor is 0 (coplanar / back-facing).
SIM_RTOL = 1e-6
SIM_ATOL = 1e-9
CLOSURE = 0.025
RECIP_RTOL = 1e-12  # a_i*(F*a_j/a_i) vs a_j*F: two roundings

NOT_CARRIED = [
    "C05_partial: F <= 1 for every pair (only 0 <= F is proved for the Stokes branch; the upper bound is an "
    "accuracy statement about Boole's rule applied to ln r) -- measured on every baked room",
    "C05_partial: row sums of a closed room within 2.5 % of 1 (quadrature accuracy, see C06) -- measured on "
    "every baked room",
    "C05_partial: everything about the Nusselt branch (bounds, reciprocity of the two-sided kernel, invariance): "
    "nusselt_integration is not modelled, its outputs are data of the assembly model",
    "C05_similarity is now PROVED for the Stokes branch (coq/theories/Proofs/StokesSimilarity.v): with cut-off 0 (the "
    "code as repaired in /repo by cfd1b2b; before that the 1e-3 m cut-off made it false, former finding "
    "similarity_cutoff) stokes_integration 0 = stokes_nocut for all patches (C05_similarity_cut0); stokes_nocut is "
    "invariant under translations (C05_similarity_partial), under x -> M x + t for every M preserving inner products "
    "(C05_similarity_isometry, C05_similarity_orthogonal) and under uniform scaling s > 0 with the area scaled by s*s "
    "(C05_similarity_scaling: needs LnLaws ln(x y) = ln x + ln y, SqrtLaws, positive distance of the sampled "
    "boundaries, pi <> 0, area <> 0); the 48 signed axis permutations keep the value for every cut-off "
    "(C05_similarity_axis_permutation).  What remains outside the theorems: they are identities of exact "
    "ordered-field arithmetic with uninterpreted ln / sqrt -- the float implementation is compared at rel 1e-6 "
    "(contour sums cancel); and nothing is proved for a POSITIVE cut-off under general rotations / scalings (false); "
    "the harness still compares the extracted stokes_nocut in both poses whenever the implementation's values differ",
]


# --------------------------------------------------------------------------
# geometry helpers
# --------------------------------------------------------------------------
def rand_rot(rng):
    """random orthogonal matrix (proper or improper)"""
    q, r = np.linalg.qr(rng.normal(size=(3, 3)))
    return q * np.sign(np.diag(r))


def convex_poly(rng, n, size):
    """convex n-gon in the z=0 plane: points of an ellipse at separated angles"""
    while True:
        ang = np.sort(rng.uniform(0, 2 * np.pi, n))
        gaps = np.diff(np.concatenate([ang, [ang[0] + 2 * np.pi]]))
        if gaps.max() < 0.9 * np.pi and gaps.min() > 0.5:
            break
    a, b = size * rng.uniform(0.6, 1.0), size * rng.uniform(0.6, 1.0)
    return np.stack([a * np.cos(ang), b * np.sin(ang), np.zeros(n)], axis=1)


def area_normal(p):
    n = np.zeros(3)
    for k in range(1, len(p) - 1):
        n += np.cross(p[k] - p[0], p[k + 1] - p[0])
    nn = np.linalg.norm(n)
    return 0.5 * nn, n / nn


def sides(p):
    return np.linalg.norm(np.roll(p, -1, axis=0) - p, axis=1)


def seg_extents(p):
    """|x[-1]-x[0]| of every sampled boundary segment and dimension, computed as the code does"""
    pts, conn = I._sample_boundary_regular(p, npoints=5)
    return np.abs(pts[conn[:, -1]] - pts[conn[:, 0]])


def cut_active(*patches):
    return any(bool(((e > 0) & (e <= CUT)).any()) for e in map(seg_extents, patches))


def near_cut(*patches):
    return any(bool((np.abs(seg_extents(p) - CUT) < 1e-9).any()) for p in patches)


def min_vertex_dist(p, q):
    return float(np.min(np.linalg.norm(p[:, None, :] - q[None, :, :], axis=2)))


def draw_pair(rng, kind):
    """returns patch_i, patch_j (vertex arrays), normals"""
    if kind == "touching":
        a, b, c = rng.uniform(0.3, 2.0, 3)
        phi = rng.uniform(np.pi / 6, 5 * np.pi / 6)
        pi = np.array([[0, 0, 0], [a, 0, 0], [a, b, 0], [0, b, 0]], dtype=float)
        pj = np.array([[0, 0, 0], [a, 0, 0], [a, c * np.cos(phi), c * np.sin(phi)],
                       [0, c * np.cos(phi), c * np.sin(phi)]], dtype=float)
        ni = np.array([0.0, 0.0, 1.0])
        nj = np.array([0.0, np.sin(phi), -np.cos(phi)])
        if rng.random() < 0.5:      # share one vertex only
            pj = pj + np.array([a, 0, 0]) * 1.0
        R = rand_rot(rng) if rng.random() < 0.7 else np.eye(3)
        t = rng.uniform(-3, 3, 3)
        return pi @ R.T + t, pj @ R.T + t, R @ ni, R @ nj
    n_i, n_j = int(rng.integers(3, 5)), int(rng.integers(3, 5))
    si, sj = rng.uniform(0.3, 2.0), rng.uniform(0.3, 2.0)
    if kind == "generic":
        pi = convex_poly(rng, n_i, si) @ rand_rot(rng).T
        pj = convex_poly(rng, n_j, sj) @ rand_rot(rng).T
    else:
        # axis-parallel rectangles in coordinate planes (extents exactly 0 in one or two dimensions)
        def rect(s):
            w, h = s * rng.uniform(0.6, 1.0), s * rng.uniform(0.6, 1.0)
            r = np.array([[-w, -h, 0], [w, -h, 0], [w, h, 0], [-w, h, 0]], dtype=float)
            perm = rng.permutation(3)
            return r[:, perm]
        pi, pj = rect(si), rect(sj)
        if kind == "nearaxis":
            # tilt by a small angle: some extents fall into (0, 1e-3]
            ang = 10 ** rng.uniform(-5, -3.2)
            ax = rng.normal(size=3)
            ax /= np.linalg.norm(ax)
            K = np.array([[0, -ax[2], ax[1]], [ax[2], 0, -ax[0]], [-ax[1], ax[0], 0]])
            Rs = np.eye(3) + np.sin(ang) * K + (1 - np.cos(ang)) * K @ K
            pi, pj = pi @ Rs.T, pj @ Rs.T
    d = rng.normal(size=3)
    d /= np.linalg.norm(d)
    pj = pj + d * (si + sj) * rng.uniform(1.1, 3.0)
    t = rng.uniform(-3, 3, 3)
    pi, pj = pi + t, pj + t
    _, ni = area_normal(pi)
    _, nj = area_normal(pj)
    return pi, pj, ni, nj


def uff(pi, ni, ai, pj, nj):
    return float(U.universal_form_factor(pi, ni, ai, pj, nj))


# --------------------------------------------------------------------------
# pair cases
# --------------------------------------------------------------------------
def model_pair(pi, pj, ai, x5, y5):
    tok = Tok()
    tok.cmd("q_sample").i(5).vecs(pi)
    tok.cmd("q_sample").i(5).vecs(pj)
    ib, _ = I._sample_boundary_regular(pi, npoints=5)
    jb, _ = I._sample_boundary_regular(pj, npoints=5)
    tok.cmd("q_entries").vecs(ib).vecs(jb)
    tok.cmd("q_boole").arr(x5).arr(y5)
    tok.cmd("q_stokes").f(CUT).vecs(pi).vecs(pj).f(ai)
    tok.cmd("q_coinc").f(THRES).vecs(pj).vecs(pi)
    tok.cmd("q_branch").f(THRES).f(CUT).vecs(pi).f(ai).vecs(pj)
    return run_driver(tok)


def similarity_test(rng, out, tag, pi, pj, ni, nj, ai, f0, branch_stokes):
    """invariance of universal_form_factor under a random translation, rotation, scaling"""
    smin = min(sides(pi).min(), sides(pj).min())
    smax = max(sides(pi).max(), sides(pj).max())
    lo, hi = 0.1 / smin, 1000.0 / smax
    moves = []
    t = rng.uniform(-50, 50, 3)
    moves.append(("translate", np.eye(3), 1.0, t))
    R = rand_rot(rng)
    moves.append(("rotate", R, 1.0, np.zeros(3)))
    s = float(np.exp(rng.uniform(np.log(lo), np.log(hi))))
    moves.append(("scale", np.eye(3), s, np.zeros(3)))
    R2 = rand_rot(rng)
    s2 = float(np.exp(rng.uniform(np.log(lo), np.log(hi))))
    moves.append(("similarity", R2, s2, rng.uniform(-50, 50, 3) * max(1.0, s2)))
    centre = 0.5 * (pi.mean(axis=0) + pj.mean(axis=0))
    for name, Rm, sc, tr in moves:
        qi = sc * ((pi - centre) @ Rm.T) + centre + tr
        qj = sc * ((pj - centre) @ Rm.T) + centre + tr
        f1 = uff(qi, Rm @ ni, ai * sc * sc, qj, Rm @ nj)
        dev = abs(f1 - f0)
        tol = SIM_RTOL * max(abs(f0), abs(f1)) + SIM_ATOL
        rel = dev / max(abs(f0), abs(f1), 1e-300)
        if not np.isfinite(f1) or dev > tol:
            key = "similarity_" + ("stokes" if branch_stokes else "nusselt")
            extra = {}
            if branch_stokes and (cut_active(pi, pj) or cut_active(qi, qj)):
                # is the cut-off the whole explanation?  compare the model's stokes_nocut in both poses
                tok = Tok()
                tok.cmd("q_stokes").f(CUT).vecs(pi).vecs(pj).f(ai)
                tok.cmd("q_stokes").f(CUT).vecs(qi).vecs(qj).f(ai * sc * sc)
                r = run_driver(tok)
                g0, g1 = floats(r[0][1])[1], floats(r[1][1])[1]
                extra = dict(nocut0=float(g0), nocut1=float(g1))
                if abs(g1 - g0) <= SIM_RTOL * max(abs(g0), abs(g1)) + SIM_ATOL:
                    key = "similarity_cutoff"
            out["prop_failures"].append(dict(
                test=key, move=name, f0=f0, f1=f1, rel=rel, scale=sc, rot=Rm.tolist(), shift=tr.tolist(),
                patch_i=pi.tolist(), patch_j=pj.tolist(), case=tag, **extra,
                what="universal_form_factor changes from %.12g to %.12g (rel %.3g) under %s"
                     % (f0, f1, rel, name)))
            out["dist"]["sim_fail_" + key] = out["dist"].get("sim_fail_" + key, 0) + 1
        elif dev > 0:
            ca = branch_stokes and (cut_active(pi, pj) or cut_active(qi, qj))
            b = "sim_dev_%srel_1e%+03d" % ("cutoff_active_" if ca else "", int(np.ceil(np.log10(max(rel, 1e-17)))))
            out["dist"][b] = out["dist"].get(b, 0) + 1


def pair_case(spec):
    rng = np.random.default_rng([spec["seed"], 100 + spec["idx"]])
    out = {"evaluations": 1, "mismatches": [], "prop_failures": [], "dist": {}, "nontrivial": []}
    kind = spec["kind"]
    pi, pj, ni, nj = draw_pair(rng, kind)
    ai, _ = area_normal(pi)
    aj, _ = area_normal(pj)
    tag = dict(kind=kind, seed=spec["seed"], idx=spec["idx"], pair=True)
    dmin = min_vertex_dist(pi, pj)
    if near_cut(pi, pj) or abs(dmin - THRES) < 1e-9:
        out["rejected"] = 1
        return out
    out["dist"]["pair_" + kind] = 1
    out["dist"]["verts_%d_%d" % (len(pi), len(pj))] = 1
    active = cut_active(pi, pj)
    if active:
        out["dist"]["cutoff_active"] = 1
    h = rng.uniform(-2, 2)
    x5 = rng.uniform(-5, 5) + h * np.arange(5)
    y5 = rng.normal(size=5) * 10 ** rng.uniform(-3, 3)

    # ---- correspondence
    res = model_pair(pi, pj, ai, x5, y5)
    it = iter(res)

    def nxt(name):
        n, t = next(it)
        assert n == name, (n, name)
        return t
    checks = []
    for p in (pi, pj):
        pts, conn = I._sample_boundary_regular(p, npoints=5)
        checks.append(("_sample_boundary_regular.pts", pts, floats(nxt("q_sample"), (-1, 3)), False))
        checks.append(("_sample_boundary_regular.conn", conn.astype(int), ints(nxt("q_sample_conn"), (-1, 5)), True))
    ib, _ = I._sample_boundary_regular(pi, npoints=5)
    jb, _ = I._sample_boundary_regular(pj, npoints=5)
    if dmin > 0:
        checks.append(("load_stokes_entries", I.load_stokes_entries(ib, jb),
                       floats(nxt("q_entries"), (len(ib), len(jb))), False))
    else:
        nxt("q_entries")      # ln 0 = -inf on coincident vertices: never used on that branch
    checks.append(("_newton_cotes_4th", [float(I._newton_cotes_4th(x5, y5))], floats(nxt("q_boole")), False))
    st = floats(nxt("q_stokes"))
    coinc = bool(G._coincidence_check(pj, pi))
    f0 = uff(pi, ni, ai, pj, nj)
    if dmin > 0:
        checks.append(("stokes_integration", [float(I.stokes_integration(pi, pj, ai))], st[:1], False))
    checks.append(("_coincidence_check", [int(coinc)], ints(nxt("q_coinc")), True))
    br = nxt("q_branch")
    # the branch universal_form_factor actually took, observed through its value
    if coinc:
        nus = float(I.nusselt_integration(patch_i=pi, patch_i_normal=ni, patch_j=pj, patch_j_normal=nj, nsamples=64))
        took_stokes = not (f0 == nus)
    else:
        took_stokes = True
    checks.append(("universal_form_factor.branch", [int(took_stokes)], [int(br[0])], True))
    if not coinc:
        checks.append(("universal_form_factor.value", [f0], [float.fromhex(br[1])], False))
    mu = 0.0
    for name, a, b, exact in checks:
        m = cmp_exact(a, b, name) if exact else cmp_float(a, b, what=name)
        if m:
            out["mismatches"].append(dict(stage=name, what=m, case=tag))
        elif not exact:
            mu = max(mu, ulp_dist(a, b))
    out["max_ulp"] = mu
    out["traces"] = 1
    out["dist"]["branch_" + ("nusselt" if coinc else "stokes")] = 1

    # ---- property statement on the implementation
    if not (0.0 <= f0 <= 1.0):
        out["prop_failures"].append(dict(test="bounds_pair", f=f0, patch_i=pi.tolist(), patch_j=pj.tolist(),
                                         case=tag, what="universal_form_factor = %r outside [0,1]" % f0))
    # two-sided kernel (accuracy, report only)
    f_back = uff(pj, nj, aj, pi, ni)
    if f0 > 1e-12:
        rel = abs(ai * f0 - aj * f_back) / (ai * f0)
        b = "kernel_two_sided_rel_1e%+03d" % int(np.ceil(np.log10(max(rel, 1e-17))))
        out["dist"][("stokes_" if not coinc else "nusselt_") + b] = 1
    similarity_test(rng, out, tag, pi, pj, ni, nj, ai, f0, not coinc)
    out["sample"] = dict(tag, patch_i=pi.tolist(), patch_j=pj.tolist(), F=f0)
    if f0 > 1e-9:
        out["nontrivial"].append(case_hash(tag))
    return out


# one fixed pair that shows the cut-off finding on every run (independent of the seed)
CANON_I = np.array([[0.0, 0.0, 0.0], [1.0, 0.0, 0.0], [1.0, 1.0, 0.0], [0.0, 1.0, 0.0]])
CANON_J = np.array([[0.5, 2.0, 0.5], [1.5, 3.0, 0.5], [1.5, 3.0, 1.5], [0.5, 2.0, 1.5]])
CANON_ANGLE = 8e-4   # rotation about the z axis, radians


def canonical_case(spec):
    out = {"evaluations": 1, "mismatches": [], "prop_failures": [], "dist": {"canonical_cutoff_pair": 1},
           "nontrivial": []}
    pi, pj = CANON_I, CANON_J
    ai, ni = area_normal(pi)
    _, nj = area_normal(pj)
    c, s = np.cos(CANON_ANGLE), np.sin(CANON_ANGLE)
    R = np.array([[c, -s, 0], [s, c, 0], [0, 0, 1.0]])
    f0 = uff(pi, ni, ai, pj, nj)
    f1 = uff(pi @ R.T, R @ ni, ai, pj @ R.T, R @ nj)
    tok = Tok()
    tok.cmd("q_stokes").f(CUT).vecs(pi).vecs(pj).f(ai)
    tok.cmd("q_stokes").f(CUT).vecs(pi @ R.T).vecs(pj @ R.T).f(ai)
    r = run_driver(tok)
    m0, m1 = floats(r[0][1]), floats(r[1][1])
    tag = dict(canonical=True, seed=spec["seed"], idx=0)
    for name, a, b in (("stokes_integration(canonical)", f0, m0[0]), ("stokes_integration(canonical rotated)", f1, m1[0])):
        m = cmp_float([a], [b], what=name)
        if m:
            out["mismatches"].append(dict(stage=name, what=m, case=tag))
    out["traces"] = 1
    dev = abs(f1 - f0)
    rel = dev / max(f0, f1, 1e-300)
    if dev > SIM_RTOL * max(f0, f1) + SIM_ATOL:
        nocut_same = abs(m1[1] - m0[1]) <= SIM_RTOL * max(m0[1], m1[1]) + SIM_ATOL
        out["prop_failures"].append(dict(
            test="similarity_cutoff" if nocut_same else "similarity_stokes", move="rotate", f0=f0, f1=f1, rel=rel,
            nocut0=float(m0[1]), nocut1=float(m1[1]), patch_i=pi.tolist(), patch_j=pj.tolist(),
            rot=R.tolist(), case=tag,
            what="unit square [0,1]^2 in z=0 and the vertical rectangle (0.5,2,0.5)-(1.5,3,0.5)-(1.5,3,1.5)-(0.5,2,1.5): "
                 "rotating the pair by %g rad about z "
                 "changes universal_form_factor from %.10g to %.10g (rel %.3g)" % (CANON_ANGLE, f0, f1, rel)))
    out["sample"] = dict(tag, F=f0, F_rotated=f1)
    out["nontrivial"].append(case_hash(tag))
    return out


# --------------------------------------------------------------------------
# room cases
# --------------------------------------------------------------------------
def impl_full_ff(radi):
    """the full matrix implied by the i<j rule, through /repo's own function"""
    t = RF._form_factors_with_directivity_dim(
        radi.visibility_matrix, radi.form_factors, 1, radi.patches_center, radi.patches_area,
        None, radi._patch_to_wall_ids, None, None, None, None)
    return t[:, :, 0, 0]


def room_case(spec):
    rng = np.random.default_rng([spec["seed"], 5000 + spec["idx"]])
    out = {"evaluations": 1, "mismatches": [], "prop_failures": [], "dist": {}, "nontrivial": []}
    cfg = S.draw_config(rng, nb=1, multi_dir=False, att_zero=bool(rng.random() < 0.5),
                        max_patches=spec["max_patches"], offset=bool(rng.random() < 0.5))
    radi = S.build(cfg)
    n = radi.n_patches
    tag = dict(room=True, dims=cfg["dims"], patch_size=cfg["patch_size"], n_patches=n,
               offset=list(cfg["offset"]), seed=spec["seed"], idx=spec["idx"], max_patches=spec["max_patches"])
    out["sample"] = tag
    out["dist"]["room_patches_%02d" % (10 * (n // 10))] = 1
    pts = radi.patches_points
    A = radi.patches_area
    F = radi.form_factors
    V = radi.visibility_matrix
    pairs = radi._visible_patches
    # precondition of the closure clause: patch aspect below 2
    sd = np.linalg.norm(np.roll(pts, -1, axis=1) - pts, axis=2)
    aspect = float((sd.max(axis=1) / sd.min(axis=1)).max())
    out["dist"]["aspect_max_%.1f" % (np.floor(aspect * 5) / 5)] = 1

    # ---- correspondence: assembly + i<j rule
    tok = Tok().cmd("q_p2p").f(THRES).f(CUT).vecs2(pts).arr(A)
    tok.i(len(pairs))
    for (a, b) in pairs:
        tok.i(a).i(b)
    tok.arr(F)
    res = run_driver(tok)
    Fm = floats(res[0][1], (n, n))
    Ffull_m = floats(res[1][1], (n, n))
    br_m = ints(res[2][1])
    br_i = np.array([int(not G._coincidence_check(pts[b], pts[a])) for (a, b) in pairs])
    Ffull = impl_full_ff(radi)
    np.fill_diagonal(Ffull, 0.0)
    out["dist"]["entries_stokes"] = int(br_i.sum())
    out["dist"]["entries_nusselt"] = int(len(br_i) - br_i.sum())
    mu = 0.0
    for name, a, b, exact in (("patch2patch_ff_universal", F, Fm, False),
                              ("universal_form_factor.branch(room)", br_i, br_m, True),
                              ("_form_factors_with_directivity_dim.ff (i<j rule)", Ffull, Ffull_m, False)):
        m = cmp_exact(a, b, name) if exact else cmp_float(a, b, what=name)
        if m:
            out["mismatches"].append(dict(stage=name, what=m, case=tag))
        elif not exact:
            mu = max(mu, ulp_dist(a, b))
    out["max_ulp"] = mu
    out["traces"] = 1

    # ---- property statement on the implementation
    def fail(test, what, **kw):
        out["prop_failures"].append(dict(test=test, what=what, case=tag, **kw))
    Vs = V | V.T
    if np.any(F < 0) or np.any(F > 1) or np.any(Ffull < 0) or np.any(Ffull > 1) or not np.all(np.isfinite(Ffull)):
        k = np.unravel_index(int(np.nanargmax(np.abs(Ffull - 0.5))), Ffull.shape)
        fail("bounds", "a baked form factor lies outside [0,1]: F[%d,%d] = %r" % (k[0], k[1], float(Ffull[k])))
    if np.any(F[~V] != 0):
        k = np.argwhere((F != 0) & ~V)[0]
        fail("invisible_zero", "form_factors[%d,%d] = %r for a pair that is not in the visible list"
             % (k[0], k[1], float(F[k[0], k[1]])))
    if np.any(Ffull[~Vs] != 0):
        k = np.argwhere((Ffull != 0) & ~Vs)[0]
        fail("invisible_zero", "full form factor [%d,%d] != 0 for an invisible pair" % (k[0], k[1]))
    T = radi._form_factors_tilde
    if np.any(T[~Vs] != 0):
        fail("invisible_zero", "form_factors_tilde != 0 for an invisible pair")
    if np.any(Ffull[Vs] <= 0):
        out["dist"]["visible_pairs_with_zero_F"] = int(np.sum(Ffull[Vs] <= 0))
    L = A[:, None] * Ffull
    dev = np.abs(L - L.T)
    tol = RECIP_RTOL * np.maximum(np.abs(L), np.abs(L.T))
    if np.any(dev > tol):
        k = np.unravel_index(int(np.argmax(dev - tol)), dev.shape)
        fail("reciprocity", "area_i*F_ij = %.15g but area_j*F_ji = %.15g for i=%d j=%d"
             % (L[k], L.T[k], k[0], k[1]), i=int(k[0]), j=int(k[1]))
    if aspect < 2.0:
        rows = Ffull.sum(axis=1)
        worst = float(np.max(np.abs(rows - 1)))
        out["dist"]["closure_err_permille_%02d" % int(np.ceil(worst * 1000))] = 1
        if worst > CLOSURE:
            k = int(np.argmax(np.abs(rows - 1)))
            fail("closure", "form factors leaving patch %d of a closed shoebox sum to %.6f" % (k, rows[k]),
                 patch=k, rowsum=float(rows[k]))
    else:
        out["dist"]["closure_skipped_aspect"] = 1
    # two-sided kernel on a few visible pairs (accuracy: report only)
    normals = radi.patches_normal
    pick = rng.permutation(len(pairs))[:6]
    worst2 = 0.0
    for k in pick:
        a, b = int(pairs[k][0]), int(pairs[k][1])
        fb = uff(pts[b], normals[b], A[b], pts[a], normals[a])
        if F[a, b] > 0:
            worst2 = max(worst2, abs(A[a] * F[a, b] - A[b] * fb) / (A[a] * F[a, b]))
    out["dist"]["room_kernel_two_sided_rel_1e%+03d" % int(np.ceil(np.log10(max(worst2, 1e-17))))] = 1
    if n >= 6 and br_i.sum() > 0:
        out["nontrivial"].append(case_hash(tag))
    return out


KINDS = ["generic", "generic", "generic", "axis", "nearaxis", "touching"]


def run(res):
    quick = res.tier == "quick"
    n_pairs = 150 if quick else 3000
    n_rooms = 8 if quick else 100
    maxp = 22 if quick else 40
    rooms = [dict(seed=res.seed, idx=i, max_patches=maxp) for i in range(n_rooms)]
    pairs = [dict(seed=res.seed, idx=i, kind=KINDS[i % len(KINDS)]) for i in range(n_pairs)]
    jobs = [("room", s) for s in rooms] + [("canon", dict(seed=res.seed))] + [("pair", s) for s in pairs]
    for r in fw.run_parallel(dispatch, jobs):
        res.absorb(r)
    res.rule = ("random pairs of convex planar triangles/quads (sides 0.2-4 m, centre distance 1.1-3 x the sum of the "
                "radii): 1/2 arbitrary orientation, 1/6 axis-parallel rectangles, 1/6 rectangles tilted by 1e-5..6e-4 rad "
                "(segment extents inside the 1e-3 cut-off), 1/6 touching rectangles (Nusselt branch); each pair is "
                "translated (<= 50 m), rotated (random orthogonal matrix), scaled (sides kept in [0.1 m, 1 km]) and all "
                "three; + shoebox rooms (sides 1-6 m, 6-%d patches, patch aspect < 2) baked by /repo; + one fixed pair; "
                "non-trivial = F > 1e-9 resp. a room with Stokes-branch entries; distinct by input hash" % maxp)
    res.not_carried = NOT_CARRIED
    res.assumptions = [
        "nusselt_integration is not modelled: on the Nusselt branch the assembly model copies the implementation's "
        "value (only the branch decision and the placement of the value are checked there)",
        "the 1e-3 cut-off and the 1e-6 coincidence threshold are inputs of the model; the harness passes the "
        "literals of /repo and rejects inputs within 1e-9 of either threshold",
        "visibility (the pair list) is an input here; the visibility kernel is tied in C07",
    ]


def dispatch(job):
    kind, spec = job
    fn = room_case if kind == "room" else canonical_case if kind == "canon" else pair_case
    try:
        return fn(spec)
    except Exception as e:      # /repo's kernels raised on a valid input: the property cannot hold there
        import traceback
        tag = dict(spec, room=(kind == "room"), canonical=(kind == "canon"), pair=(kind == "pair"))
        return {"evaluations": 1, "mismatches": [], "nontrivial": [], "dist": {"impl_exception": 1},
                "prop_failures": [dict(test="exception", case=tag, trace=traceback.format_exc()[-1500:],
                                       what="evaluating the form factors raised %r" % (e,))]}


def replay(res, payload):
    for f in payload.get("failures", []) + payload.get("correspondence", []):
        case = f.get("case", {})
        if case.get("room"):
            res.absorb(room_case(dict(seed=case["seed"], idx=case["idx"], max_patches=case.get("max_patches", 40))))
        elif case.get("canonical"):
            res.absorb(canonical_case(dict(seed=case["seed"])))
        else:
            res.absorb(pair_case(dict(seed=case["seed"], idx=case["idx"], kind=case["kind"])))
    res.not_carried = NOT_CARRIED
