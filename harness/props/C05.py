"""C05 -- form factors obey bounds, reciprocity, closure and similarity invariance.

Correspondence: `_sample_boundary_regular`, `load_stokes_entries`, `_newton_cotes_4th`,
`stokes_integration`, `_coincidence_check`, the branch of `universal_form_factor` on random
pairs of convex planar patches; `patch2patch_ff_universal` + the i<j rule of
`_form_factors_with_directivity_dim` on baked shoebox rooms.  The Nusselt integrator
(`nusselt_integration`, `nusselt_analog`, `_surf_sample_regulargrid`, `_area_under_curve`,
`_poly_estimation_Lagrange`, `_poly_integration`) is modelled in coq/theories/Model/Nusselt.v and
compared with /repo by the family `nusselt_model` (touching patch pairs) and, for baked rooms, through
`patch2patch_ff_full` (both branches computed by the model).

Property statement on the implementation: bounds, exact zeros for invisible pairs, reciprocity of
the full matrix, row sums of closed rooms, invariance under translation / rotation / uniform
scaling of a pair.
"""
import numpy as np

from common import Tok, run_driver, floats, ints, cmp_float, cmp_exact, case_hash, ulp_dist
import framework as fw
import scenes as S

from sparrowpy.form_factor import integration as I
from sparrowpy.form_factor import universal as U
import sparrowpy.geometry as G
from sparrowpy.classes import RadiosityFast as RF

CUT = 0.0           # literal in stokes_integration (1e-3 before fix cfd1b2b)
THRES = 1e-6        # default of _coincidence_check
# "unchanged": equal up to the rounding of the integrators.  The contour sums cancel by a factor
# ~ (distance/side)^2 (<= ~1e3 for the generated pairs), coordinates reach 1e3..1e4 m after scaling /
# translation, so rounding stays below ~1e-10 relative; measured maximum on the unchanged code
# with the cut-off inactive: < 1e-8 (12000 transformed pairs, thorough tier).  1e-6 relative leaves 2 orders of margin; the
# absolute term covers pairs whose exact form factor is 0 (coplanar / back-facing).
SIM_RTOL = 1e-6
SIM_ATOL = 1e-9
CLOSURE = 0.025
RECIP_RTOL = 1e-12  # a_i*(F*a_j/a_i) vs a_j*F: two roundings

NOT_CARRIED = [
    "C05_partial: F <= 1 for every pair (only 0 <= F is proved for the Stokes branch; the upper bound is an "
    "accuracy statement about Boole's rule applied to ln r) -- measured on every baked room",
    "C05_partial: row sums of a closed room within 2.5 % of 1 (quadrature accuracy, see C06) -- measured on "
    "every baked room",
    "C05_partial, Nusselt branch: nusselt_integration / nusselt_analog / _surf_sample_regulargrid ARE modelled "
    "(coq/theories/Model/Nusselt.v, tied to /repo by the family nusselt_model at rel 1e-9 + abs 1e-12, and through "
    "patch2patch_ff_full on every baked room) and the following is PROVED for the model "
    "(coq/theories/Proofs/NusseltProofs.v): invariance under a common translation of both patches, also of "
    "universal_form_factor with both branches (C05_nusselt_translation, C05_universal_full_translation: commutative "
    "ring); invariance under uniform scaling by s > 0 (C05_nusselt_scaling: ordered field + SqrtLaws; for "
    "nusselt_integration the two sampled sides el[1]-el[0], el[-1]-el[0] must have non-zero length); the sample grid "
    "of a non-triangular patch has npointsx*npointsz points, the cell centres el[0] + (2i+1)/(2 npointsx) u + "
    "(2j+1)/(2 npointsz) v, strictly inside the parallelogram (C05_nusselt_grid_rectangle: ordered field + FloorLaws); "
    "the assembly with both branches computed holds exact zeros for unlisted pairs, the Nusselt value exactly on "
    "touching listed pairs, and keeps the zero / area-ratio reciprocity statements of the i<j rule "
    "(C05_full_assembly_entries, C05_full_assembly); and the composed end-to-end model (Model/Full.v) no longer takes "
    "any form-factor value as an input: for every room description the matrix of the scene it builds IS "
    "patch2patch_ff_full of the room's own tiling, normals, areas and visible-pair list, visible touching pairs hold "
    "the model's Nusselt value and the others the Stokes value, invisible pairs are exactly zero and the lower "
    "triangle follows by the area ratio (C05_room_form_factors_computed, C05_room_geometry_is_tiling; executed "
    "against from_polygon ... bake_geometry by the end-to-end family of C03, harness/fullroom.py, at rel 1e-9).  "
    "NOT proved for the Nusselt branch: every accuracy statement "
    "(that the value approximates the form-factor integral: the quadratic-arc area and the regular-grid quadrature "
    "are not analysed), 0 <= F <= 1, area_i*F_ij = area_j*F_ji of the two-sided kernel (it is not symmetric by "
    "construction: one patch is sampled, the other projected; measured as *kernel_two_sided*), rotation invariance "
    "(_rotation_matrix has special cases decided by exact float equality and the in-plane frame changes with the "
    "normal; only exercised by the similarity test at rel 1e-6), scaling invariance of universal_form_factor as a "
    "whole (the 1e-6 m coincidence threshold is absolute), continuity across the three 1e-6 decision thresholds and "
    "across the rounding of the grid counts, the triangle branch of the sample grid; np.linalg.inv of the 3x3 "
    "Vandermonde matrix is modelled by the Lagrange closed form and x**k by the k-fold product (compared numerically, "
    "not proved equal to LAPACK / libm)",
    "C05_similarity is now PROVED for the Stokes branch (coq/theories/Proofs/StokesSimilarity.v): with cut-off 0 (the "
    "code as repaired in /repo by cfd1b2b; before that the 1e-3 m cut-off made it false, former finding "
    "similarity_cutoff) stokes_integration 0 = stokes_nocut for all patches (C05_similarity_cut0); stokes_nocut is "
    "invariant under translations (C05_similarity_partial), under x -> M x + t for every M preserving inner products "
    "(C05_similarity_isometry, C05_similarity_orthogonal) and under uniform scaling s > 0 with the area scaled by s*s "
    "(C05_similarity_scaling: needs LnLaws ln(x y) = ln x + ln y, SqrtLaws, positive distance of the sampled "
    "boundaries, pi <> 0, area <> 0); the 48 signed axis permutations keep the value for every cut-off "
    "(C05_similarity_axis_permutation).  What remains outside the theorems: they are identities of exact "
    "ordered-field arithmetic with uninterpreted ln / sqrt -- the float implementation is compared at rel 1e-6 "
    "(contour sums cancel); and nothing is proved for a POSITIVE cut-off under general rotations / scalings (false); "
    "the harness still compares the extracted stokes_nocut in both poses whenever the implementation's values differ",
]


# --------------------------------------------------------------------------
# geometry helpers
# --------------------------------------------------------------------------
def rand_rot(rng):
    """random orthogonal matrix (proper or improper)"""
    q, r = np.linalg.qr(rng.normal(size=(3, 3)))
    return q * np.sign(np.diag(r))


def convex_poly(rng, n, size):
    """convex n-gon in the z=0 plane: points of an ellipse at separated angles"""
    while True:
        ang = np.sort(rng.uniform(0, 2 * np.pi, n))
        gaps = np.diff(np.concatenate([ang, [ang[0] + 2 * np.pi]]))
        if gaps.max() < 0.9 * np.pi and gaps.min() > 0.5:
            break
    a, b = size * rng.uniform(0.6, 1.0), size * rng.uniform(0.6, 1.0)
    return np.stack([a * np.cos(ang), b * np.sin(ang), np.zeros(n)], axis=1)


def area_normal(p):
    n = np.zeros(3)
    for k in range(1, len(p) - 1):
        n += np.cross(p[k] - p[0], p[k + 1] - p[0])
    nn = np.linalg.norm(n)
    return 0.5 * nn, n / nn


def sides(p):
    return np.linalg.norm(np.roll(p, -1, axis=0) - p, axis=1)


def seg_extents(p):
    """|x[-1]-x[0]| of every sampled boundary segment and dimension, computed as the code does"""
    pts, conn = I._sample_boundary_regular(p, npoints=5)
    return np.abs(pts[conn[:, -1]] - pts[conn[:, 0]])


def cut_active(*patches):
    return any(bool(((e > 0) & (e <= CUT)).any()) for e in map(seg_extents, patches))


def near_cut(*patches):
    return any(bool((np.abs(seg_extents(p) - CUT) < 1e-9).any()) for p in patches)


def min_vertex_dist(p, q):
    return float(np.min(np.linalg.norm(p[:, None, :] - q[None, :, :], axis=2)))


def draw_pair(rng, kind):
    """returns patch_i, patch_j (vertex arrays), normals"""
    if kind == "touching":
        a, b, c = rng.uniform(0.3, 2.0, 3)
        phi = rng.uniform(np.pi / 6, 5 * np.pi / 6)
        pi = np.array([[0, 0, 0], [a, 0, 0], [a, b, 0], [0, b, 0]], dtype=float)
        pj = np.array([[0, 0, 0], [a, 0, 0], [a, c * np.cos(phi), c * np.sin(phi)],
                       [0, c * np.cos(phi), c * np.sin(phi)]], dtype=float)
        ni = np.array([0.0, 0.0, 1.0])
        nj = np.array([0.0, np.sin(phi), -np.cos(phi)])
        if rng.random() < 0.5:      # share one vertex only
            pj = pj + np.array([a, 0, 0]) * 1.0
        R = rand_rot(rng) if rng.random() < 0.7 else np.eye(3)
        t = rng.uniform(-3, 3, 3)
        return pi @ R.T + t, pj @ R.T + t, R @ ni, R @ nj
    n_i, n_j = int(rng.integers(3, 5)), int(rng.integers(3, 5))
    si, sj = rng.uniform(0.3, 2.0), rng.uniform(0.3, 2.0)
    if kind == "generic":
        pi = convex_poly(rng, n_i, si) @ rand_rot(rng).T
        pj = convex_poly(rng, n_j, sj) @ rand_rot(rng).T
    else:
        # axis-parallel rectangles in coordinate planes (extents exactly 0 in one or two dimensions)
        def rect(s):
            w, h = s * rng.uniform(0.6, 1.0), s * rng.uniform(0.6, 1.0)
            r = np.array([[-w, -h, 0], [w, -h, 0], [w, h, 0], [-w, h, 0]], dtype=float)
            perm = rng.permutation(3)
            return r[:, perm]
        pi, pj = rect(si), rect(sj)
        if kind == "nearaxis":
            # tilt by a small angle: some extents fall into (0, 1e-3]
            ang = 10 ** rng.uniform(-5, -3.2)
            ax = rng.normal(size=3)
            ax /= np.linalg.norm(ax)
            K = np.array([[0, -ax[2], ax[1]], [ax[2], 0, -ax[0]], [-ax[1], ax[0], 0]])
            Rs = np.eye(3) + np.sin(ang) * K + (1 - np.cos(ang)) * K @ K
            pi, pj = pi @ Rs.T, pj @ Rs.T
    d = rng.normal(size=3)
    d /= np.linalg.norm(d)
    pj = pj + d * (si + sj) * rng.uniform(1.1, 3.0)
    t = rng.uniform(-3, 3, 3)
    pi, pj = pi + t, pj + t
    _, ni = area_normal(pi)
    _, nj = area_normal(pj)
    return pi, pj, ni, nj


def uff(pi, ni, ai, pj, nj):
    return float(U.universal_form_factor(pi, ni, ai, pj, nj))


# --------------------------------------------------------------------------
# pair cases
# --------------------------------------------------------------------------
def model_pair(pi, pj, ai, x5, y5):
    tok = Tok()
    tok.cmd("q_sample").i(5).vecs(pi)
    tok.cmd("q_sample").i(5).vecs(pj)
    ib, _ = I._sample_boundary_regular(pi, npoints=5)
    jb, _ = I._sample_boundary_regular(pj, npoints=5)
    tok.cmd("q_entries").vecs(ib).vecs(jb)
    tok.cmd("q_boole").arr(x5).arr(y5)
    tok.cmd("q_stokes").f(CUT).vecs(pi).vecs(pj).f(ai)
    tok.cmd("q_coinc").f(THRES).vecs(pj).vecs(pi)
    tok.cmd("q_branch").f(THRES).f(CUT).vecs(pi).f(ai).vecs(pj)
    return run_driver(tok)


def similarity_test(rng, out, tag, pi, pj, ni, nj, ai, f0, branch_stokes):
    """invariance of universal_form_factor under a random translation, rotation, scaling"""
    smin = min(sides(pi).min(), sides(pj).min())
    smax = max(sides(pi).max(), sides(pj).max())
    lo, hi = 0.1 / smin, 1000.0 / smax
    moves = []
    t = rng.uniform(-50, 50, 3)
    moves.append(("translate", np.eye(3), 1.0, t))
    R = rand_rot(rng)
    moves.append(("rotate", R, 1.0, np.zeros(3)))
    s = float(np.exp(rng.uniform(np.log(lo), np.log(hi))))
    moves.append(("scale", np.eye(3), s, np.zeros(3)))
    R2 = rand_rot(rng)
    s2 = float(np.exp(rng.uniform(np.log(lo), np.log(hi))))
    moves.append(("similarity", R2, s2, rng.uniform(-50, 50, 3) * max(1.0, s2)))
    centre = 0.5 * (pi.mean(axis=0) + pj.mean(axis=0))
    for name, Rm, sc, tr in moves:
        qi = sc * ((pi - centre) @ Rm.T) + centre + tr
        qj = sc * ((pj - centre) @ Rm.T) + centre + tr
        f1 = uff(qi, Rm @ ni, ai * sc * sc, qj, Rm @ nj)
        dev = abs(f1 - f0)
        tol = SIM_RTOL * max(abs(f0), abs(f1)) + SIM_ATOL
        rel = dev / max(abs(f0), abs(f1), 1e-300)
        if not np.isfinite(f1) or dev > tol:
            key = "similarity_" + ("stokes" if branch_stokes else "nusselt")
            extra = {}
            if branch_stokes and (cut_active(pi, pj) or cut_active(qi, qj)):
                # is the cut-off the whole explanation?  compare the model's stokes_nocut in both poses
                tok = Tok()
                tok.cmd("q_stokes").f(CUT).vecs(pi).vecs(pj).f(ai)
                tok.cmd("q_stokes").f(CUT).vecs(qi).vecs(qj).f(ai * sc * sc)
                r = run_driver(tok)
                g0, g1 = floats(r[0][1])[1], floats(r[1][1])[1]
                extra = dict(nocut0=float(g0), nocut1=float(g1))
                if abs(g1 - g0) <= SIM_RTOL * max(abs(g0), abs(g1)) + SIM_ATOL:
                    key = "similarity_cutoff"
            out["prop_failures"].append(dict(
                test=key, move=name, f0=f0, f1=f1, rel=rel, scale=sc, rot=Rm.tolist(), shift=tr.tolist(),
                patch_i=pi.tolist(), patch_j=pj.tolist(), case=tag, **extra,
                what="universal_form_factor changes from %.12g to %.12g (rel %.3g) under %s"
                     % (f0, f1, rel, name)))
            out["dist"]["sim_fail_" + key] = out["dist"].get("sim_fail_" + key, 0) + 1
        elif dev > 0:
            ca = branch_stokes and (cut_active(pi, pj) or cut_active(qi, qj))
            b = "sim_dev_%srel_1e%+03d" % ("cutoff_active_" if ca else "", int(np.ceil(np.log10(max(rel, 1e-17)))))
            out["dist"][b] = out["dist"].get(b, 0) + 1


def pair_case(spec):
    rng = np.random.default_rng([spec["seed"], 100 + spec["idx"]])
    out = {"evaluations": 1, "mismatches": [], "prop_failures": [], "dist": {}, "nontrivial": []}
    kind = spec["kind"]
    pi, pj, ni, nj = draw_pair(rng, kind)
    ai, _ = area_normal(pi)
    aj, _ = area_normal(pj)
    tag = dict(kind=kind, seed=spec["seed"], idx=spec["idx"], pair=True)
    dmin = min_vertex_dist(pi, pj)
    if near_cut(pi, pj) or abs(dmin - THRES) < 1e-9:
        out["rejected"] = 1
        return out
    out["dist"]["pair_" + kind] = 1
    out["dist"]["verts_%d_%d" % (len(pi), len(pj))] = 1
    active = cut_active(pi, pj)
    if active:
        out["dist"]["cutoff_active"] = 1
    h = rng.uniform(-2, 2)
    x5 = rng.uniform(-5, 5) + h * np.arange(5)
    y5 = rng.normal(size=5) * 10 ** rng.uniform(-3, 3)

    # ---- correspondence
    res = model_pair(pi, pj, ai, x5, y5)
    it = iter(res)

    def nxt(name):
        n, t = next(it)
        assert n == name, (n, name)
        return t
    checks = []
    for p in (pi, pj):
        pts, conn = I._sample_boundary_regular(p, npoints=5)
        checks.append(("_sample_boundary_regular.pts", pts, floats(nxt("q_sample"), (-1, 3)), False))
        checks.append(("_sample_boundary_regular.conn", conn.astype(int), ints(nxt("q_sample_conn"), (-1, 5)), True))
    ib, _ = I._sample_boundary_regular(pi, npoints=5)
    jb, _ = I._sample_boundary_regular(pj, npoints=5)
    if dmin > 0:
        checks.append(("load_stokes_entries", I.load_stokes_entries(ib, jb),
                       floats(nxt("q_entries"), (len(ib), len(jb))), False))
    else:
        nxt("q_entries")      # ln 0 = -inf on coincident vertices: never used on that branch
    checks.append(("_newton_cotes_4th", [float(I._newton_cotes_4th(x5, y5))], floats(nxt("q_boole")), False))
    st = floats(nxt("q_stokes"))
    coinc = bool(G._coincidence_check(pj, pi))
    f0 = uff(pi, ni, ai, pj, nj)
    if dmin > 0:
        checks.append(("stokes_integration", [float(I.stokes_integration(pi, pj, ai))], st[:1], False))
    checks.append(("_coincidence_check", [int(coinc)], ints(nxt("q_coinc")), True))
    br = nxt("q_branch")
    # the branch universal_form_factor actually took, observed through its value
    if coinc:
        nus = float(I.nusselt_integration(patch_i=pi, patch_i_normal=ni, patch_j=pj, patch_j_normal=nj, nsamples=64))
        took_stokes = not (f0 == nus)
    else:
        took_stokes = True
    checks.append(("universal_form_factor.branch", [int(took_stokes)], [int(br[0])], True))
    if not coinc:
        checks.append(("universal_form_factor.value", [f0], [float.fromhex(br[1])], False))
    mu = 0.0
    for name, a, b, exact in checks:
        m = cmp_exact(a, b, name) if exact else cmp_float(a, b, what=name)
        if m:
            out["mismatches"].append(dict(stage=name, what=m, case=tag))
        elif not exact:
            mu = max(mu, ulp_dist(a, b))
    out["max_ulp"] = mu
    out["traces"] = 1
    out["dist"]["branch_" + ("nusselt" if coinc else "stokes")] = 1

    # ---- property statement on the implementation
    if not (0.0 <= f0 <= 1.0):
        out["prop_failures"].append(dict(test="bounds_pair", f=f0, patch_i=pi.tolist(), patch_j=pj.tolist(),
                                         case=tag, what="universal_form_factor = %r outside [0,1]" % f0))
    # two-sided kernel (accuracy, report only)
    f_back = uff(pj, nj, aj, pi, ni)
    if f0 > 1e-12:
        rel = abs(ai * f0 - aj * f_back) / (ai * f0)
        b = "kernel_two_sided_rel_1e%+03d" % int(np.ceil(np.log10(max(rel, 1e-17))))
        out["dist"][("stokes_" if not coinc else "nusselt_") + b] = 1
    similarity_test(rng, out, tag, pi, pj, ni, nj, ai, f0, not coinc)
    out["sample"] = dict(tag, patch_i=pi.tolist(), patch_j=pj.tolist(), F=f0)
    if f0 > 1e-9:
        out["nontrivial"].append(case_hash(tag))
    return out


# one fixed pair that shows the cut-off finding on every run (independent of the seed)
CANON_I = np.array([[0.0, 0.0, 0.0], [1.0, 0.0, 0.0], [1.0, 1.0, 0.0], [0.0, 1.0, 0.0]])
CANON_J = np.array([[0.5, 2.0, 0.5], [1.5, 3.0, 0.5], [1.5, 3.0, 1.5], [0.5, 2.0, 1.5]])
CANON_ANGLE = 8e-4   # rotation about the z axis, radians


def canonical_case(spec):
    out = {"evaluations": 1, "mismatches": [], "prop_failures": [], "dist": {"canonical_cutoff_pair": 1},
           "nontrivial": []}
    pi, pj = CANON_I, CANON_J
    ai, ni = area_normal(pi)
    _, nj = area_normal(pj)
    c, s = np.cos(CANON_ANGLE), np.sin(CANON_ANGLE)
    R = np.array([[c, -s, 0], [s, c, 0], [0, 0, 1.0]])
    f0 = uff(pi, ni, ai, pj, nj)
    f1 = uff(pi @ R.T, R @ ni, ai, pj @ R.T, R @ nj)
    tok = Tok()
    tok.cmd("q_stokes").f(CUT).vecs(pi).vecs(pj).f(ai)
    tok.cmd("q_stokes").f(CUT).vecs(pi @ R.T).vecs(pj @ R.T).f(ai)
    r = run_driver(tok)
    m0, m1 = floats(r[0][1]), floats(r[1][1])
    tag = dict(canonical=True, seed=spec["seed"], idx=0)
    for name, a, b in (("stokes_integration(canonical)", f0, m0[0]), ("stokes_integration(canonical rotated)", f1, m1[0])):
        m = cmp_float([a], [b], what=name)
        if m:
            out["mismatches"].append(dict(stage=name, what=m, case=tag))
    out["traces"] = 1
    dev = abs(f1 - f0)
    rel = dev / max(f0, f1, 1e-300)
    if dev > SIM_RTOL * max(f0, f1) + SIM_ATOL:
        nocut_same = abs(m1[1] - m0[1]) <= SIM_RTOL * max(m0[1], m1[1]) + SIM_ATOL
        out["prop_failures"].append(dict(
            test="similarity_cutoff" if nocut_same else "similarity_stokes", move="rotate", f0=f0, f1=f1, rel=rel,
            nocut0=float(m0[1]), nocut1=float(m1[1]), patch_i=pi.tolist(), patch_j=pj.tolist(),
            rot=R.tolist(), case=tag,
            what="unit square [0,1]^2 in z=0 and the vertical rectangle (0.5,2,0.5)-(1.5,3,0.5)-(1.5,3,1.5)-(0.5,2,1.5): "
                 "rotating the pair by %g rad about z "
                 "changes universal_form_factor from %.10g to %.10g (rel %.3g)" % (CANON_ANGLE, f0, f1, rel)))
    out["sample"] = dict(tag, F=f0, F_rotated=f1)
    out["nontrivial"].append(case_hash(tag))
    return out


# --------------------------------------------------------------------------
# Nusselt branch: the extracted model (Model/Nusselt.v) against /repo
# --------------------------------------------------------------------------
T_SEG = 1e-6        # literal in nusselt_analog: norm(cross(..)) > 1e-6
T_DOT = 1e-6        # literal in nusselt_analog: dot(..) >= 1e-6
T_LAG = 1e-6        # literal in _poly_estimation_Lagrange: abs(x[-1]-x[0]) < 1e-6
NUS_RTOL = 1e-9
NUS_ATOL = 1e-12
NEAR = 1e-9         # distance to a decision threshold / to a rounding tie below which a case is re-drawn
NUS_KINDS = ["shoebox", "shoebox_offset", "shoebox_lattice", "inclined", "shoebox_corner", "rotated", "shoebox",
             "triangle", "shoebox_thin", "rotated"]


def cmp_close(impl, model, what, rtol=NUS_RTOL, atol=NUS_ATOL):
    """None if |impl-model| <= rtol*max(|impl|,|model|) + atol everywhere, else a description; also returns the
    largest deviation relative to max(|impl|,|model|, atol/rtol)"""
    a = np.asarray(impl, dtype=float)
    b = np.asarray(model, dtype=float)
    if a.shape != b.shape:
        return "%s: shape %s (impl) vs %s (model)" % (what, a.shape, b.shape), np.inf
    if a.size == 0:
        return None, 0.0
    bad = ~(np.isfinite(a) & np.isfinite(b))
    with np.errstate(invalid="ignore"):
        dev = np.abs(a - b)
        bad |= dev > rtol * np.maximum(np.abs(a), np.abs(b)) + atol
        rel = float(np.nanmax(dev / np.maximum(np.maximum(np.abs(a), np.abs(b)), atol / rtol)))
    if bad.any():
        idx = np.unravel_index(int(np.argmax(bad)), a.shape)
        return "%s: at %s impl=%r model=%r (%d of %d entries differ)" % (
            what, tuple(int(x) for x in idx), float(a[idx]), float(b[idx]), int(bad.sum()), a.size), rel
    return None, rel


def signed_perm(rng):
    """one of the 48 signed axis permutations"""
    P = np.zeros((3, 3))
    p = rng.permutation(3)
    for i in range(3):
        P[i, p[i]] = rng.choice([-1.0, 1.0])
    return P


def reorder(rng, p):
    """random starting vertex and orientation of a polygon"""
    p = np.roll(p, int(rng.integers(0, len(p))), axis=0)
    if rng.random() < 0.3:
        p = p[::-1].copy()
    return p


def draw_touching(rng, kind):
    """two touching patches as they occur in rooms (+ inclined / rotated / triangular variants);
    returns patch_i, patch_j, unit normals (pointing into the common half spaces)"""
    big = 10 ** rng.uniform(-0.5, 2.0)                       # longest side, 0.3 .. 100 m
    lo = -1.7 if kind == "shoebox_thin" else -0.8
    a, b, c = np.maximum(big * 10 ** rng.uniform(lo, 0.0, 3), 0.1)   # sides 0.1 .. 100 m
    if kind == "shoebox_lattice":                            # sides are multiples of a common patch size
        q = 10 ** rng.uniform(-1.0, 0.8)
        a, b, c = q * rng.integers(1, 17, 3)
    elif rng.random() < 0.25:
        b = a                                                # square source patch (exact integer grid counts)
    phi = np.pi / 2
    if kind == "inclined" or (kind in ("rotated", "triangle") and rng.random() < 0.5):
        phi = rng.uniform(np.pi / 6, 5 * np.pi / 6)
    cph, sph = (0.0, 1.0) if phi == np.pi / 2 else (np.cos(phi), np.sin(phi))
    x0, x1 = 0.0, a
    if kind == "shoebox_offset":                             # the receiver overlaps a part of the common edge
        x1 = a * rng.uniform(0.2, 3.0)
    elif kind == "shoebox_corner":                           # only one common vertex
        x0, x1 = a, a + big * 10 ** rng.uniform(-0.8, 0.0)
    pi = np.array([[0, 0, 0], [a, 0, 0], [a, b, 0], [0, b, 0]], dtype=float)
    pj = np.array([[x0, 0, 0], [x0, c * cph, c * sph], [x1, c * cph, c * sph], [x1, 0, 0]], dtype=float)
    if kind == "triangle":
        which = int(rng.integers(0, 3))
        if which != 1:
            pi = pi[[0, 1, 3]]
        if which != 0:
            pj = pj[[0, 1, 3]]
    ni = np.array([0.0, 0.0, 1.0])
    nj = np.array([0.0, sph, -cph])
    pi, pj = reorder(rng, pi), reorder(rng, pj)
    R = rand_rot(rng) if kind == "rotated" else signed_perm(rng)
    t = rng.uniform(-1, 1, 3) * 10 ** rng.uniform(-1, 2)
    return pi @ R.T + t, pj @ R.T + t, R @ ni, R @ nj


def round_tie_margin(el, npoints):
    """distance of the two arguments of int(round(..)) in _surf_sample_regulargrid to a half-integer"""
    u, v = el[1] - el[0], el[-1] - el[0]
    a = 2 if len(el) == 3 else 1
    r1 = np.linalg.norm(u) / np.linalg.norm(v) * np.sqrt(a * npoints)
    r2 = np.linalg.norm(v) / np.linalg.norm(u) * np.sqrt(a * npoints)
    return min(abs((r - np.floor(r)) - 0.5) for r in (r1, r2))


def analog_margins(p0, ni, pj, nj):
    """decision quantities of nusselt_analog, computed with /repo's own helpers: smallest distance of a threshold
    comparison to its threshold, whether an input of np.sign / a normalisation / the exact comparisons of
    _rotation_matrix is degenerate, and the branch taken per boundary segment"""
    bp, conn = I._sample_boundary_regular(pj, npoints=3)
    e1, e2 = pj[1] - pj[0], pj[2] - pj[1]
    hand_rel = abs(float(np.dot(np.cross(e1, e2), nj))) / (np.linalg.norm(e1) * np.linalg.norm(e2) * np.linalg.norm(nj))
    d = bp - p0
    nrm = np.linalg.norm(d, axis=1)
    sph = d / nrm[:, None]
    rot = G._rotation_matrix(n_in=ni)
    pln = np.array([G._matrix_vector_product(matrix=rot, vector=w)[:-1] for w in sph])
    c = float(ni[2] / np.linalg.norm(ni))
    # _rotation_matrix decides by exact equality with +-1: a generic normal must stay away from the poles
    degenerate = hand_rel < 1e-6 or float(nrm.min()) < 1e-6 * float(nrm.max()) or (abs(c) != 1.0 and 1.0 - abs(c) < NEAR)
    m = np.inf
    branches = []
    for seg in conn:
        P0, P2 = pln[seg[0]], pln[seg[-1]]
        cr = abs(P2[0] * P0[1] - P2[1] * P0[0])
        m = min(m, abs(cr - T_SEG))
        if cr > T_SEG:
            dt = float(np.dot(P2, P0))
            m = min(m, abs(dt - T_DOT))
            branches.append("lt90" if dt >= T_DOT else "gt90")
        else:
            branches.append("skipped")
    return m, degenerate, branches


class _Recorder:
    """wraps /repo's _area_under_curve while nusselt_analog runs: smallest distance of a chord length
    |ps[-1]-ps[0]| to the threshold of _poly_estimation_Lagrange, and whether an area that is not exactly 0 by
    that threshold is too small for its sign (the code takes np.sign of one of them) to be decided"""

    def __init__(self):
        self.min_chord = np.inf
        self.sign_undecided = False
        self.calls = 0
        self.orig = I._area_under_curve

    def __enter__(self):
        def wrapped(ps, order=2):
            out = self.orig(ps, order=order)
            chord = float(np.linalg.norm(ps[-1] - ps[0]))
            self.calls += 1
            self.min_chord = min(self.min_chord, abs(chord - T_LAG))
            if chord > T_LAG and abs(float(out)) < 1e-9 * chord * chord:
                self.sign_undecided = True
            return out
        I._area_under_curve = wrapped
        return self

    def __exit__(self, *a):
        I._area_under_curve = self.orig


def nusselt_near_decision(pi, pj, ni, nj, nsamples=64):
    """reason why (pi, pj) is a near-decision input of nusselt_integration, or None; also returns the analog values
    of /repo per sample point, the sample points and the branch per boundary segment"""
    if round_tie_margin(pi, nsamples) < NEAR:
        return "round_tie", None, None, []
    grid = I._surf_sample_regulargrid(pi, nsamples)
    margin, branches, degenerate = np.inf, [], False
    with _Recorder() as rec:
        an_i = np.array([float(I.nusselt_analog(p, ni, pj, nj)) for p in grid])
    for p in grid:
        m, dg, br = analog_margins(p, ni, pj, nj)
        margin = min(margin, m)
        degenerate = degenerate or dg
        branches += br
    if (margin < NEAR or degenerate or rec.min_chord < NEAR or rec.sign_undecided
            or abs(min_vertex_dist(pi, pj) - THRES) < NEAR or not np.all(np.isfinite(an_i))):
        return "threshold", an_i, grid, branches
    return None, an_i, grid, branches


def nusselt_case(spec):
    out = {"evaluations": 1, "mismatches": [], "prop_failures": [], "dist": {}, "nontrivial": []}
    kind = spec["kind"]
    tag = dict(nusselt=True, kind=kind, seed=spec["seed"], idx=spec["idx"])
    nsamples = 64
    # ---- draw (re-draw near-decision inputs; every draw derives from the case seed and index)
    for attempt in range(20):
        rng = np.random.default_rng([spec["seed"], 9000 + spec["idx"], attempt])
        pi, pj, ni, nj = draw_touching(rng, kind)
        nsamples = 64 if rng.random() < 0.7 else int(rng.choice([1, 2, 5, 16, 30, 100]))
        if len(pi) == 3 and nsamples == 1:
            # /repo's _surf_sample_regulargrid returns no point at all (IndexError on ptlist[0]) for a triangle with
            # npoints=1 and side ratio in about (0.57, 1.76); universal_form_factor always passes nsamples=64
            nsamples = 2
        why, an_i, grid, branches = nusselt_near_decision(pi, pj, ni, nj, nsamples)
        if why is not None:
            out["dist"]["nus_redrawn_" + why] = out["dist"].get("nus_redrawn_" + why, 0) + 1
            out["rejected"] = out.get("rejected", 0) + 1
            continue
        break
    else:
        out["dist"]["nus_no_admissible_draw"] = 1
        return out
    tag["attempt"] = attempt
    ai, _ = area_normal(pi)
    out["dist"]["nus_kind_" + kind] = 1
    out["dist"]["nus_verts_%d_%d" % (len(pi), len(pj))] = 1
    out["dist"]["nus_nsamples_%d" % nsamples] = 1
    out["dist"]["nus_sample_points"] = len(grid)
    for b in ("skipped", "lt90", "gt90"):
        out["dist"]["nus_segments_" + b] = branches.count(b)
    out["dist"]["nus_longest_side_1e%+d" % int(np.floor(np.log10(max(sides(pi).max(), sides(pj).max()))))] = 1

    # ---- unit inputs for the small kernels
    x3 = np.sort(rng.uniform(-2, 2, 3))
    x3[1] = x3[0] + (x3[2] - x3[0]) * rng.uniform(0.2, 0.8)
    y3 = rng.normal(size=3)
    ang = np.sort(rng.uniform(0, np.pi / 2, 3)) + rng.uniform(0, 2 * np.pi)
    arc = np.stack([np.cos(ang), np.sin(ang)], axis=1) * rng.uniform(0.1, 1.0) + rng.uniform(-1, 1, 2)
    rx = np.concatenate([np.arange(0, 12) + 0.5, rng.uniform(0, 200, 6), rng.integers(0, 50, 3).astype(float),
                         [0.0, 0.49999999999999994, 0.5000000000000001, 2.4999999999999996, 2.5000000000000004]])

    # ---- the implementation
    in_i = float(I.nusselt_integration(patch_i=pi, patch_j=pj, patch_i_normal=ni, patch_j_normal=nj,
                                       nsamples=nsamples))
    in64_i = in_i if nsamples == 64 else float(I.nusselt_integration(
        patch_i=pi, patch_j=pj, patch_i_normal=ni, patch_j_normal=nj, nsamples=64))
    f_i = uff(pi, ni, ai, pj, nj)
    coinc = bool(G._coincidence_check(pj, pi))
    co_i = I._poly_estimation_Lagrange(x3, y3)
    pint_i = float(I._poly_integration(co_i, x3))
    auc_i = float(I._area_under_curve(arc, order=2))
    round_i = [int(round(np.float64(x))) for x in rx]

    # ---- the model
    tok = Tok()
    tok.cmd("nus_grid").vecs(pi).i(nsamples)
    tok.cmd("nus_analog").f(T_SEG).f(T_DOT).f(T_LAG).vec(ni).vecs(pj).vec(nj).vecs(grid)
    tok.cmd("nus_integration").f(T_SEG).f(T_DOT).f(T_LAG).vecs(pi).vecs(pj).vec(ni).vec(nj).i(nsamples)
    tok.cmd("nus_uff").f(THRES).f(CUT).f(T_SEG).f(T_DOT).f(T_LAG).vecs(pi).vec(ni).f(ai).vecs(pj).vec(nj)
    tok.cmd("nus_lagrange").f(T_LAG).vec(x3).vec(y3)
    tok.cmd("nus_auc").f(T_LAG).vec(arc.reshape(-1))
    tok.cmd("nus_round").arr(rx)
    res = dict(run_driver(tok))
    grid_m = floats(res["nus_grid"], (-1, 3))
    lag_m = floats(res["nus_lagrange"])
    cscale = float(np.abs(co_i).max())
    checks = [
        ("_surf_sample_regulargrid", grid, grid_m, NUS_ATOL * max(1.0, float(np.abs(grid).max()))),
        ("nusselt_analog (per sample point)", an_i, floats(res["nus_analog"]), NUS_ATOL),
        ("nusselt_integration", [in_i], floats(res["nus_integration"]), NUS_ATOL),
        ("_poly_estimation_Lagrange", co_i, lag_m[:3], NUS_RTOL * cscale),
        ("_poly_integration", [pint_i], lag_m[3:], NUS_RTOL * cscale),
        ("_area_under_curve", [auc_i], floats(res["nus_auc"]), NUS_ATOL),
    ]
    if coinc:
        checks.append(("universal_form_factor (Nusselt branch)", [f_i], floats(res["nus_uff"]), NUS_ATOL))
        if f_i != in64_i:
            out["mismatches"].append(dict(stage="universal_form_factor.branch", case=tag,
                                          what="touching pair: universal_form_factor = %r but nusselt_integration("
                                               "nsamples=64) = %r" % (f_i, in64_i)))
    worst = 0.0
    for name, a, b, atol in checks:
        m, rel = cmp_close(a, b, name, atol=atol)
        if m:
            out["mismatches"].append(dict(stage=name, what=m, case=tag, patch_i=pi.tolist(), patch_j=pj.tolist(),
                                          normal_i=ni.tolist(), normal_j=nj.tolist(), nsamples=nsamples))
        else:
            worst = max(worst, rel)
    m = cmp_exact(round_i, ints(res["nus_round"]), "round (half to even)")
    if m:
        out["mismatches"].append(dict(stage="round", what=m, case=tag, values=rx.tolist()))
    nxz = ints(res["nus_grid_n"])
    if len(pi) == 4 and int(nxz[0] * nxz[1]) != len(grid):
        out["mismatches"].append(dict(stage="_surf_sample_regulargrid.count", case=tag,
                                      what="model npointsx*npointsz = %d*%d, implementation returns %d points"
                                           % (nxz[0], nxz[1], len(grid))))
    out["dist"]["nus_dev_rel_1e%+03d" % int(np.ceil(np.log10(max(worst, 1e-17))))] = 1
    out["nus_max_rel"] = worst
    out["traces"] = 1
    out["dist"]["nus_branch_" + ("nusselt" if coinc else "stokes")] = 1
    # ---- property statement on the implementation (bounds; report-only accuracy figures)
    if not (0.0 <= in_i <= 1.0):
        out["prop_failures"].append(dict(test="bounds_nusselt", f=in_i, patch_i=pi.tolist(), patch_j=pj.tolist(),
                                         case=tag, what="nusselt_integration = %r outside [0,1]" % in_i))
    out["sample"] = dict(tag, patch_i=pi.tolist(), patch_j=pj.tolist(), nsamples=nsamples, F=in_i)
    if in_i > 1e-9:
        out["nontrivial"].append(case_hash(tag))
    return out


# --------------------------------------------------------------------------
# room cases
# --------------------------------------------------------------------------
def impl_full_ff(radi):
    """the full matrix implied by the i<j rule, through /repo's own function"""
    t = RF._form_factors_with_directivity_dim(
        radi.visibility_matrix, radi.form_factors, 1, radi.patches_center, radi.patches_area,
        None, radi._patch_to_wall_ids, None, None, None, None)
    return t[:, :, 0, 0]


def room_case(spec):
    rng = np.random.default_rng([spec["seed"], 5000 + spec["idx"]])
    out = {"evaluations": 1, "mismatches": [], "prop_failures": [], "dist": {}, "nontrivial": []}
    cfg = S.draw_config(rng, nb=1, multi_dir=False, att_zero=bool(rng.random() < 0.5),
                        max_patches=spec["max_patches"], offset=bool(rng.random() < 0.5))
    radi = S.build(cfg)
    n = radi.n_patches
    tag = dict(room=True, dims=cfg["dims"], patch_size=cfg["patch_size"], n_patches=n,
               offset=list(cfg["offset"]), seed=spec["seed"], idx=spec["idx"], max_patches=spec["max_patches"])
    out["sample"] = tag
    out["dist"]["room_patches_%02d" % (10 * (n // 10))] = 1
    pts = radi.patches_points
    A = radi.patches_area
    F = radi.form_factors
    V = radi.visibility_matrix
    pairs = radi._visible_patches
    # precondition of the closure clause: patch aspect below 2
    sd = np.linalg.norm(np.roll(pts, -1, axis=1) - pts, axis=2)
    aspect = float((sd.max(axis=1) / sd.min(axis=1)).max())
    out["dist"]["aspect_max_%.1f" % (np.floor(aspect * 5) / 5)] = 1

    # ---- correspondence: assembly + i<j rule
    tok = Tok().cmd("q_p2p").f(THRES).f(CUT).vecs2(pts).arr(A)
    tok.i(len(pairs))
    for (a, b) in pairs:
        tok.i(a).i(b)
    tok.arr(F)
    normals = radi.patches_normal
    tok.cmd("nus_p2p").f(THRES).f(CUT).f(T_SEG).f(T_DOT).f(T_LAG).vecs2(pts).vecs(normals).arr(A)
    tok.i(len(pairs))
    for (a, b) in pairs:
        tok.i(a).i(b)
    res = run_driver(tok)
    Fall_m = floats(res[3][1], (n, n))
    Fm = floats(res[0][1], (n, n))
    Ffull_m = floats(res[1][1], (n, n))
    br_m = ints(res[2][1])
    br_i = np.array([int(not G._coincidence_check(pts[b], pts[a])) for (a, b) in pairs])
    Ffull = impl_full_ff(radi)
    np.fill_diagonal(Ffull, 0.0)
    out["dist"]["entries_stokes"] = int(br_i.sum())
    out["dist"]["entries_nusselt"] = int(len(br_i) - br_i.sum())
    mu = 0.0
    for name, a, b, exact in (("patch2patch_ff_universal", F, Fm, False),
                              ("universal_form_factor.branch(room)", br_i, br_m, True),
                              ("_form_factors_with_directivity_dim.ff (i<j rule)", Ffull, Ffull_m, False)):
        m = cmp_exact(a, b, name) if exact else cmp_float(a, b, what=name)
        if m:
            out["mismatches"].append(dict(stage=name, what=m, case=tag))
        elif not exact:
            mu = max(mu, ulp_dist(a, b))
    out["max_ulp"] = mu
    out["traces"] = 1
    # both branches computed by the model (patch2patch_ff_full): no value is copied from the implementation
    bad = ~(np.abs(F - Fall_m) <= NUS_RTOL * np.maximum(np.abs(F), np.abs(Fall_m)) + NUS_ATOL)
    for (a, b) in np.argwhere(bad):
        a, b = int(a), int(b)
        why = None
        if G._coincidence_check(pts[b], pts[a]):
            why = nusselt_near_decision(pts[a], pts[b], normals[a], normals[b])[0]
        if why is not None:
            out["dist"]["room_nusselt_entry_near_decision_" + why] = out["dist"].get(
                "room_nusselt_entry_near_decision_" + why, 0) + 1
            out["rejected"] = out.get("rejected", 0) + 1
        else:
            out["mismatches"].append(dict(stage="patch2patch_ff_universal vs patch2patch_ff_full", case=tag, i=a, j=b,
                                          what="form_factors[%d,%d]: impl=%r model=%r" % (a, b, float(F[a, b]),
                                                                                       float(Fall_m[a, b]))))
    out["dist"]["room_full_model_entries"] = int(len(pairs))

    # ---- property statement on the implementation
    def fail(test, what, **kw):
        out["prop_failures"].append(dict(test=test, what=what, case=tag, **kw))
    Vs = V | V.T
    if np.any(F < 0) or np.any(F > 1) or np.any(Ffull < 0) or np.any(Ffull > 1) or not np.all(np.isfinite(Ffull)):
        k = np.unravel_index(int(np.nanargmax(np.abs(Ffull - 0.5))), Ffull.shape)
        fail("bounds", "a baked form factor lies outside [0,1]: F[%d,%d] = %r" % (k[0], k[1], float(Ffull[k])))
    if np.any(F[~V] != 0):
        k = np.argwhere((F != 0) & ~V)[0]
        fail("invisible_zero", "form_factors[%d,%d] = %r for a pair that is not in the visible list"
             % (k[0], k[1], float(F[k[0], k[1]])))
    if np.any(Ffull[~Vs] != 0):
        k = np.argwhere((Ffull != 0) & ~Vs)[0]
        fail("invisible_zero", "full form factor [%d,%d] != 0 for an invisible pair" % (k[0], k[1]))
    T = radi._form_factors_tilde
    if np.any(T[~Vs] != 0):
        fail("invisible_zero", "form_factors_tilde != 0 for an invisible pair")
    if np.any(Ffull[Vs] <= 0):
        out["dist"]["visible_pairs_with_zero_F"] = int(np.sum(Ffull[Vs] <= 0))
    L = A[:, None] * Ffull
    dev = np.abs(L - L.T)
    tol = RECIP_RTOL * np.maximum(np.abs(L), np.abs(L.T))
    if np.any(dev > tol):
        k = np.unravel_index(int(np.argmax(dev - tol)), dev.shape)
        fail("reciprocity", "area_i*F_ij = %.15g but area_j*F_ji = %.15g for i=%d j=%d"
             % (L[k], L.T[k], k[0], k[1]), i=int(k[0]), j=int(k[1]))
    if aspect < 2.0:
        rows = Ffull.sum(axis=1)
        worst = float(np.max(np.abs(rows - 1)))
        out["dist"]["closure_err_permille_%02d" % int(np.ceil(worst * 1000))] = 1
        if worst > CLOSURE:
            k = int(np.argmax(np.abs(rows - 1)))
            fail("closure", "form factors leaving patch %d of a closed shoebox sum to %.6f" % (k, rows[k]),
                 patch=k, rowsum=float(rows[k]))
    else:
        out["dist"]["closure_skipped_aspect"] = 1
    # two-sided kernel on a few visible pairs (accuracy: report only)
    pick = rng.permutation(len(pairs))[:6]
    worst2 = 0.0
    for k in pick:
        a, b = int(pairs[k][0]), int(pairs[k][1])
        fb = uff(pts[b], normals[b], A[b], pts[a], normals[a])
        if F[a, b] > 0:
            worst2 = max(worst2, abs(A[a] * F[a, b] - A[b] * fb) / (A[a] * F[a, b]))
    out["dist"]["room_kernel_two_sided_rel_1e%+03d" % int(np.ceil(np.log10(max(worst2, 1e-17))))] = 1
    if n >= 6 and br_i.sum() > 0:
        out["nontrivial"].append(case_hash(tag))
    return out


KINDS = ["generic", "generic", "generic", "axis", "nearaxis", "touching"]


def run(res):
    quick = res.tier == "quick"
    n_pairs = 150 if quick else 3000
    n_rooms = 8 if quick else 100
    maxp = 22 if quick else 40
    rooms = [dict(seed=res.seed, idx=i, max_patches=maxp) for i in range(n_rooms)]
    pairs = [dict(seed=res.seed, idx=i, kind=KINDS[i % len(KINDS)]) for i in range(n_pairs)]
    n_nus = 40 if quick else 600
    nus = [dict(seed=res.seed, idx=i, kind=NUS_KINDS[i % len(NUS_KINDS)]) for i in range(n_nus)]
    jobs = ([("room", s) for s in rooms] + [("canon", dict(seed=res.seed))] + [("pair", s) for s in pairs]
            + [("nusselt", s) for s in nus])
    nus_max = 0.0
    for r in fw.run_parallel(dispatch, jobs):
        nus_max = max(nus_max, r.get("nus_max_rel", 0.0))
        res.absorb(r)
    res.notes.append("nusselt_model: %d touching pairs; largest deviation between the extracted model and /repo over "
                     "_surf_sample_regulargrid, nusselt_analog (every sample point), nusselt_integration, "
                     "universal_form_factor, _area_under_curve, _poly_estimation_Lagrange, _poly_integration, relative "
                     "to max(|value|, 1e-3): %.3g (tolerance rel 1e-9 + abs 1e-12)" % (n_nus, nus_max))
    res.rule = ("random pairs of convex planar triangles/quads (sides 0.2-4 m, centre distance 1.1-3 x the sum of the "
                "radii): 1/2 arbitrary orientation, 1/6 axis-parallel rectangles, 1/6 rectangles tilted by 1e-5..6e-4 rad "
                "(segment extents inside the 1e-3 cut-off), 1/6 touching rectangles (Nusselt branch); each pair is "
                "translated (<= 50 m), rotated (random orthogonal matrix), scaled (sides kept in [0.1 m, 1 km]) and all "
                "three; + shoebox rooms (sides 1-6 m, 6-%d patches, patch aspect < 2) baked by /repo; + one fixed pair; "
                "non-trivial = F > 1e-9 resp. a room with Stokes-branch entries; distinct by input hash; "
                "+ family nusselt_model: touching pairs (rectangles sharing an edge at right angles as in shoebox rooms, "
                "sharing a part of an edge, sharing one vertex, inclined by 30-150 degrees, thin (aspect up to 50), "
                "triangles; sides 0.1-100 m, the 48 axis orientations or a random orthogonal matrix, random vertex "
                "order / orientation, translations up to 100 m, nsamples 64 (70 %%) or 1..100)" % maxp)
    res.not_carried = NOT_CARRIED
    res.assumptions = [
        "Nusselt branch: the model replaces np.linalg.inv of the 3x3 Vandermonde matrix by the Lagrange closed form "
        "and x**k by the k-fold product; compared with /repo at rel 1e-9 + abs 1e-12 (family nusselt_model, and "
        "patch2patch_ff_full on every baked room)",
        "the Stokes cut-off, the 1e-6 coincidence threshold and the three 1e-6 thresholds of nusselt_analog / "
        "_poly_estimation_Lagrange are inputs of the model; the harness passes the literals of /repo and re-draws "
        "inputs within 1e-9 of a threshold, with a grid-count argument within 1e-9 of a half-integer (round), with "
        "an undecided np.sign argument or with a normal within 1e-9 of the poles of _rotation_matrix (counted as "
        "nus_redrawn_*)",
        "triangular source patches are not sampled with nsamples=1 (/repo's _surf_sample_regulargrid then returns no "
        "point and raises IndexError; universal_form_factor always uses nsamples=64)",
        "visibility (the pair list) is an input here; the visibility kernel is tied in C07",
    ]


def dispatch(job):
    kind, spec = job
    fn = {"room": room_case, "canon": canonical_case, "nusselt": nusselt_case}.get(kind, pair_case)
    try:
        return fn(spec)
    except Exception as e:      # /repo's kernels raised on a valid input: the property cannot hold there
        import traceback
        tag = dict(spec, room=(kind == "room"), canonical=(kind == "canon"), pair=(kind == "pair"),
                   nusselt=(kind == "nusselt"))
        return {"evaluations": 1, "mismatches": [], "nontrivial": [], "dist": {"impl_exception": 1},
                "prop_failures": [dict(test="exception", case=tag, trace=traceback.format_exc()[-1500:],
                                       what="evaluating the form factors raised %r" % (e,))]}


def replay(res, payload):
    for f in payload.get("failures", []) + payload.get("correspondence", []):
        case = f.get("case", {})
        if case.get("room"):
            res.absorb(room_case(dict(seed=case["seed"], idx=case["idx"], max_patches=case.get("max_patches", 40))))
        elif case.get("canonical"):
            res.absorb(canonical_case(dict(seed=case["seed"])))
        elif case.get("nusselt"):
            res.absorb(nusselt_case(dict(seed=case["seed"], idx=case["idx"], kind=case["kind"])))
        else:
            res.absorb(pair_case(dict(seed=case["seed"], idx=case["idx"], kind=case["kind"])))
    res.not_carried = NOT_CARRIED
