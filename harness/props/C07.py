"""C07 -- visibility is geometric line of sight.

Correspondence: geometry._point_in_polygon, _project_to_plane, _rotation_matrix,
_matrix_vector_product, _basic_visibility, _check_point2patch_visibility and
_check_patch2patch_visibility against the extracted model (Model/Visibility.v).

Property level: the implementation against an independent exact-rational oracle
(fractions.Fraction; the float inputs are converted exactly): a pair is visible exactly when
the open segment crosses the interior of no surface, no endpoint surface is seen from behind
and the two are not coplanar; the relation is symmetric; the matrix is strictly upper
triangular and `visible_patches` lists its true entries in row-major order.
"""
from fractions import Fraction

import numpy as np

from common import Tok, run_driver, floats, ints, cmp_exact, case_hash
import framework as fw

EPS = 1e-6          # epsilon default of _project_to_plane
ETA = 1e-6          # eta default of _point_in_polygon / _basic_visibility
CLEAR = 1e-3        # the property's clearance from surface edges (1 mm)
ON_PLANE = 1e-9     # an endpoint this close to a plane lies on it ...
OFF_PLANE = 1e-3    # ... otherwise it must be at least this far away (general position)

NOT_CARRIED = [
    "pip_correct for general polygons: correctness of the winding-number test of _point_in_polygon (with its "
    "eta/epsilon tolerances, the rotation to the horizontal plane and the general Rodrigues branch of "
    "_rotation_matrix) is PROVED (a) for axis-aligned rectangular surfaces -- the six wall orientations of a "
    "shoebox room, all 8 vertex orders (C07_pip_correct_rect, _closed, _horizontal; margin m from the four edge "
    "lines with eta <= 2 m, sharp by C07_pip_rect_margin_sharp; on the edge lines orthogonal to the ray the test is "
    "half-open, C07_pip_rect_edge_half_open) -- and for them the segment logic is unconditional "
    "(C07_segment_logic_rect, _endpoint, _coplanar; needs SqrtLaws and 0 <= epsilon < 1); (b) for triangles on "
    "axis planes in general position (C07_pip_correct_triangle); and (c) for ANY polygon on an axis plane in "
    "general position it is reduced to a tolerance-free signed crossing number (C07_winding_general_position, "
    "C07_pip_general_position: no vertex within eta/2 of the ray's line, crossing sides steeper than epsilon).  "
    "NOT proved: that the crossing number of a convex polygon with more than 3 vertices is +-1 inside and 0 "
    "outside (textbook geometry, independent of the code), rotated (non axis-aligned) surfaces and non-unit "
    "normals; there C07_segment_logic stays conditional on pip_correct_at for the points actually queried.  "
    "It is validated by the correspondence run and by the exact-rational half-plane oracle on every generated "
    "query -- and for polygons with a pointed vertex it is known to FAIL on a set of positive measure (finding "
    "ray_through_vertex, C07_pip_correct_refuted; for an axis-aligned rectangle the ray meets a vertex only from "
    "points on an edge line, which the margin excludes).  Seen while proving (c), confirmed on /repo, not a "
    "harness case: a side that crosses the ray's line at an angle below epsilon = 1e-6 rad is skipped by the "
    "'parallel' gate of _project_to_plane, so interior points of sliver polygons (e.g. (0,0) (2e6,1) (0,2), point "
    "(1,0.5)) are reported outside",
    "the composed room (Model/Full.v): PROVED (coq/theories/Proofs/FullVisibility.v) (i) for a room whose walls lie "
    "in axis planes, are at least one patch wide in both directions and carry + or - the unit vector of their flat "
    "axis as normal (axis_walls = the C08 predicate wall_ok + axis normal) every patch surface of the model is a "
    "well-formed axis-aligned rectangle (C07_room_patches_are_rects, derived from the tiling theorems); (ii) for two "
    "patches i < j whose centroids are in general position with respect to every patch rectangle r (gen_pos: each "
    "centroid is farther than eta and epsilon from the plane of r, or lies exactly in it and farther than m >= eta/2 "
    "from the four edge lines of r; if both are off the plane and the OPEN segment between them crosses the plane, "
    "the crossing point is farther than m from the edge lines) the relation used by the energy exchange, vis_sym, "
    "holds iff NO patch rectangle blocks the segment between the centroids (C07_room_visibility_geometric, "
    "C07_room_visibility_geometric_shoebox; blocked = the open segment meets the open rectangle / one end in the "
    "rectangle and the other behind it / both ends in the plane and one in the rectangle; C07_blocked_iff_rect "
    "also covers an end point in the plane BESIDE the rectangle, which never hides; needs 0 < eta); (iii) the clauses of "
    "gen_pos about a patch's OWN rectangle are theorems about the centroid the model computes (sum of the four "
    "vertices / 4): exactly in the plane, strictly inside, farther than m from the edge lines when both cell sides "
    "exceed 2 m (C07_rect_own_centroid, C07_room_center_is_rect_centroid), hence with NO hypothesis on the other "
    "surfaces a patch never exchanges energy with a patch whose centroid is behind it or in its own plane "
    "(C07_room_behind_hidden, C07_room_coplanar_hidden); (iv) for GENUINE SHOEBOX ROOMS "
    "(coq/theories/Proofs/FullShoebox.v; is_shoebox = literally the six walls, normals and up vectors of "
    "sp.testing.shoebox_room_stub, translated to a corner (x0,y0,z0), with x0 < x1 etc. and 0 < patch size <= every "
    "side; tolerances 0 <= epsilon < 1, 0 < eta, 2 epsilon < patch size, 2 eta < patch size -- every cell side is at "
    "least the patch size) general position is a THEOREM: every pair of patch centroids is in general position "
    "with respect to EVERY patch rectangle (C07_shoebox_general_position: a centroid lies in the plane of the cells "
    "of its own wall at least half a cell from each of their edge lines, and strictly inside the five other wall "
    "planes by at least half a cell; the open segment between two such points meets no wall plane), hence the "
    "CLOSED FORM vis_sym i j = true <=> wall i <> wall j (C07_shoebox_visibility: two patches exchange energy iff "
    "they lie on different walls), and from a point farther than epsilon and eta from the six wall planes every "
    "patch is visible with the WALLS as blockers (C07_shoebox_point_visibility: room_point_vis = all True; "
    "re-stated as C04_shoebox_all_patches_visible).  Non-vacuity: Instances/ShoeboxR.v (the reals satisfy all law "
    "classes used, incl. floor and sqrt; the room shoebox_room_stub(4, 3, 2), patch size 1, source (2, 1.5, 1)).  "
    "NOT proved: general position / a closed form for rooms that are not shoeboxes (non-convex rooms, interior "
    "panels, walls that are not axis-aligned rectangles): there general position with respect to the OTHER "
    "patches' rectangles stays a hypothesis of C07_room_visibility_geometric; point sources in or within the "
    "tolerances of a wall plane",
    "the float gap: C07_symmetric is an identity of exact field arithmetic; on IEEE doubles the two "
    "evaluation orders can differ within rounding of a decision boundary (the harness evaluates both orders "
    "on general-position inputs and demands equal answers)",
    "hidden-patch energy = 0 (mentioned in the design's search plan) is the business of C01/C04, not checked here",
]


# --------------------------------------------------------------------------
# float helpers (generators and general-position filters only -- never the verdict)
# --------------------------------------------------------------------------
def rand_orthogonal(rng):
    q, r = np.linalg.qr(rng.normal(size=(3, 3)))
    return q * np.sign(np.diag(r))


def pt_seg_dist(x, a, b):
    ab = b - a
    den = float(ab @ ab)
    t = 0.0 if den == 0 else min(1.0, max(0.0, float((x - a) @ ab) / den))
    return float(np.linalg.norm(x - (a + t * ab)))


def seg_seg_dist(p1, q1, p2, q2):
    """distance between two segments (Ericson, Real-Time Collision Detection 5.1.9)"""
    d1, d2, r = q1 - p1, q2 - p2, p1 - p2
    a, e, f = float(d1 @ d1), float(d2 @ d2), float(d2 @ r)
    if a <= 1e-300 and e <= 1e-300:
        return float(np.linalg.norm(r))
    if a <= 1e-300:
        s, t = 0.0, min(1.0, max(0.0, f / e))
    else:
        c = float(d1 @ r)
        if e <= 1e-300:
            t, s = 0.0, min(1.0, max(0.0, -c / a))
        else:
            b = float(d1 @ d2)
            den = a * e - b * b
            s = min(1.0, max(0.0, (b * f - c * e) / den)) if den > 1e-300 else 0.0
            t = (b * s + f) / e
            if t < 0:
                t, s = 0.0, min(1.0, max(0.0, -c / a))
            elif t > 1:
                t, s = 1.0, min(1.0, max(0.0, (b - c) / a))
    return float(np.linalg.norm((p1 + d1 * s) - (p2 + d2 * t)))


def clearance(p, q, poly, n):
    """distance of the segment from the edges of the surface; for a pair lying in the plane of the
    surface (coplanar -- the segment necessarily runs over edges) the distance of the endpoints"""
    k = len(poly)
    sp, sq = float((p - poly[0]) @ n), float((q - poly[0]) @ n)
    if abs(sp) <= ON_PLANE and abs(sq) <= ON_PLANE:
        return min(min(pt_seg_dist(p, poly[i], poly[(i + 1) % k]) for i in range(k)),
                   min(pt_seg_dist(q, poly[i], poly[(i + 1) % k]) for i in range(k)))
    return min(seg_seg_dist(p, q, poly[i], poly[(i + 1) % k]) for i in range(k))


# --------------------------------------------------------------------------
# the exact-rational oracle (independent of the implementation's algorithm)
# --------------------------------------------------------------------------
def fr(v):
    return [Fraction(float(x)) for x in v]


def fsub(a, b):
    return [a[0] - b[0], a[1] - b[1], a[2] - b[2]]


def fdot(a, b):
    return a[0] * b[0] + a[1] * b[1] + a[2] * b[2]


def fcross(a, b):
    return [a[1] * b[2] - a[2] * b[1], a[2] * b[0] - a[0] * b[2], a[0] * b[1] - a[1] * b[0]]


ON2 = Fraction(ON_PLANE) ** 2
OFF2 = Fraction(OFF_PLANE) ** 2


class ExactSurface:
    def __init__(self, poly, n):
        self.poly = [fr(v) for v in poly]
        self.n = fr(n)
        self.nn = fdot(self.n, self.n)
        k = len(self.poly)
        self.edges = [(self.poly[i], fsub(self.poly[(i + 1) % k], self.poly[i])) for i in range(k)]

    def side(self, x):
        return fdot(self.n, fsub(x, self.poly[0]))

    def cls(self, s):
        """0: on the plane; +1/-1: clearly off; None: in the tolerance zone (not general position)"""
        if s * s <= ON2 * self.nn:
            return 0
        if s * s >= OFF2 * self.nn:
            return 1 if s > 0 else -1
        return None

    def inside(self, x):
        """half-plane tests in the polygon's plane: x on the same side of every edge"""
        sg = [fdot(fcross(d, fsub(x, a)), self.n) for (a, d) in self.edges]
        return all(s >= 0 for s in sg) or all(s <= 0 for s in sg)

    def foot(self, x, s):
        f = s / self.nn
        return [x[0] - f * self.n[0], x[1] - f * self.n[1], x[2] - f * self.n[2]]

    def pip(self, x):
        """membership of the float point x in the closed polygon (None: tolerance zone)"""
        X = fr(x)
        s = self.side(X)
        c = self.cls(s)
        if c is None:
            return None
        return c == 0 and self.inside(self.foot(X, s))

    def visible(self, p, q):
        """True/False: the surface leaves p-q visible / hides it; None: not in general position"""
        P, Q = fr(p), fr(q)
        sp, sq = self.side(P), self.side(Q)
        cp, cq = self.cls(sp), self.cls(sq)
        if cp is None or cq is None:
            return None
        inp = cp == 0 and self.inside(self.foot(P, sp))
        inq = cq == 0 and self.inside(self.foot(Q, sq))
        if not inp and not inq:
            if cp * cq < 0:                      # proper crossing of the plane
                t = sp / (sp - sq)
                d = fsub(Q, P)
                x = [P[0] + t * d[0], P[1] + t * d[1], P[2] + t * d[2]]
                return not self.inside(x)
            return True
        if inp and inq:
            return False                         # coplanar
        if inp:
            if cq == 0:
                return False                     # coplanar
            return not fdot(self.n, fsub(Q, P)) < 0   # hidden iff seen from behind
        if cp == 0:
            return False
        return not fdot(self.n, fsub(P, Q)) < 0


def oracle_pair(exs, polys, normals, p, q):
    """conjunction over all surfaces; (None, why) when the pair is not in general position"""
    vis = True
    for ex, poly, n in zip(exs, polys, normals):
        v = ex.visible(p, q)
        if v is None:
            return None, "plane_zone"
        if clearance(p, q, poly, n) < CLEAR:
            return None, "edge_clearance"
        vis = vis and v
    return vis, ""


# --------------------------------------------------------------------------
# generators
# --------------------------------------------------------------------------
def convex_uv(rng, k, rmin=0.3, rmax=2.0):
    """k points on a randomly oriented ellipse: a convex polygon with interior angles away from 0/pi"""
    for _ in range(200):
        ang = np.sort(rng.uniform(0, 2 * np.pi, k))
        gaps = np.diff(np.concatenate([ang, [ang[0] + 2 * np.pi]]))
        if gaps.min() > 0.3 and gaps.max() < np.pi - 0.3:
            break
    else:
        ang = (np.arange(k) + rng.uniform(0, 1)) * 2 * np.pi / k
    a, b = rng.uniform(rmin, rmax, 2)
    phi = rng.uniform(0, 2 * np.pi)
    u, v = a * np.cos(ang), b * np.sin(ang)
    uv = np.stack([u * np.cos(phi) - v * np.sin(phi), u * np.sin(phi) + v * np.cos(phi)], axis=1)
    if rng.random() < 0.5:
        uv = uv[::-1].copy()
    return uv


ORIENT = ["zplus", "zminus", "axis", "random", "nearz", "nearzminus"]


def draw_frame(rng, mode):
    """orthonormal columns (e1, e2, n); n exactly +-z / +-axis in the special modes"""
    if mode == "zplus":
        return np.eye(3)
    if mode == "zminus":
        return np.diag([1.0, -1.0, -1.0]) if rng.random() < 0.5 else np.diag([1.0, 1.0, -1.0])
    if mode == "axis":
        perm = rng.permutation(3)
        m = np.zeros((3, 3))
        for c in range(3):
            m[perm[c], c] = 1.0 if rng.random() < 0.5 else -1.0
        if abs(m[2, 2]) == 1.0:          # keep the normal off the z axis in this mode
            m = m[[1, 2, 0], :]
        return m
    if mode == "random":
        return rand_orthogonal(rng)
    # nearly +-z: tilt by a small angle away from the c == -1 rounding edge (th ~ 1.5e-8)
    th = 10 ** rng.uniform(-6.5, -2) if rng.random() < 0.7 else 10 ** rng.uniform(-13, -10)
    ax = rng.uniform(0, 2 * np.pi)
    k = np.array([np.cos(ax), np.sin(ax), 0.0])
    K = np.array([[0, -k[2], k[1]], [k[2], 0, -k[0]], [-k[1], k[0], 0]])
    R = np.eye(3) + np.sin(th) * K + (1 - np.cos(th)) * (K @ K)
    if mode == "nearzminus":
        R = R @ np.diag([1.0, -1.0, -1.0])
    return R


def draw_polygon(rng, mode=None, k=None, scale=1.0, origin=None):
    k = k or int(rng.integers(3, 9))
    mode = mode or ORIENT[int(rng.choice(len(ORIENT), p=[0.12, 0.12, 0.14, 0.38, 0.12, 0.12]))]
    fr_ = draw_frame(rng, mode)
    uv = convex_uv(rng, k) * scale + rng.uniform(-1, 1, 2) * scale
    o = rng.uniform(-2, 2, 3) if origin is None else np.asarray(origin, dtype=float)
    e1, e2, n = fr_[:, 0].copy(), fr_[:, 1].copy(), fr_[:, 2].copy()
    n = n / np.linalg.norm(n)
    pts = o[None, :] + uv[:, 0:1] * e1[None, :] + uv[:, 1:2] * e2[None, :]
    return dict(k=k, mode=mode, uv=uv, o=o, e1=e1, e2=e2, n=n, pts=pts)


def uv_inside(uv, x):
    k = len(uv)
    s = []
    for i in range(k):
        a, b = uv[i], uv[(i + 1) % k]
        s.append((b[0] - a[0]) * (x[1] - a[1]) - (b[1] - a[1]) * (x[0] - a[0]))
    s = np.array(s)
    return bool(np.all(s > 0) or np.all(s < 0))


def uv_edge_dist(uv, x):
    k = len(uv)
    x3 = np.array([x[0], x[1], 0.0])
    return min(pt_seg_dist(x3, np.array([*uv[i], 0.0]), np.array([*uv[(i + 1) % k], 0.0])) for i in range(k))


def draw_uv(rng, pg, want_inside=None):
    """in-plane point with >= 1 mm (well: 2 mm) clearance; returns (uv, inside) or None"""
    uv = pg["uv"]
    for _ in range(50):
        if want_inside is True or (want_inside is None and rng.random() < 0.5):
            w = rng.dirichlet(np.ones(len(uv)) * 0.7)
            x = w @ uv
        else:
            lo, hi = uv.min(axis=0), uv.max(axis=0)
            c, h = (lo + hi) / 2, (hi - lo) / 2
            x = c + rng.uniform(-1.8, 1.8, 2) * h
        ins = uv_inside(uv, x)
        if want_inside is not None and ins != want_inside:
            continue
        if uv_edge_dist(uv, x) < 2 * CLEAR:
            continue
        return x, ins
    return None


def lift(pg, x, h=0.0):
    return pg["o"] + x[0] * pg["e1"] + x[1] * pg["e2"] + h * pg["n"]


def off_height(rng):
    return float(rng.choice([-1.0, 1.0]) * 10 ** rng.uniform(-2.5, 0.3))


def tiny_height(rng):
    u = rng.random()
    if u < 0.5:
        return 0.0
    return float(rng.choice([-1.0, 1.0]) * 10 ** rng.uniform(-13, -10))


def surf_tok(tok, pts, n):
    return tok.vecs(pts).vec(n)


def bools(tokens):
    return np.array([t == "1" for t in tokens], dtype=bool)


def close(a, b, scale=1.0):
    a, b = np.asarray(a, dtype=float), np.asarray(b, dtype=float)
    if a.shape != b.shape or not (np.all(np.isfinite(a)) and np.all(np.isfinite(b))):
        return a.shape == b.shape and bool(np.array_equal(np.isnan(a), np.isnan(b))) and \
            bool(np.allclose(a[np.isfinite(a)], b[np.isfinite(b)], rtol=1e-9, atol=1e-12 * scale))
    return bool(np.allclose(a, b, rtol=1e-9, atol=1e-12 * scale))


def ray_vertex_suspect(G, x, pts, n):
    """the known defect: in the rotated frame the +x ray from x passes within the eta band of a
    polygon vertex.  Used only to give such a failure its stable key."""
    try:
        r = G._rotation_matrix(n_in=np.asarray(n, dtype=float))
        y = float((r @ np.asarray(x, dtype=float))[1])
        ys = (np.asarray(pts, dtype=float) @ r.T)[:, 1]
        return bool(np.any(np.abs(ys - y) < 3 * ETA))
    except Exception:
        return False


# --------------------------------------------------------------------------
# case 1: one polygon, many point / segment queries
# --------------------------------------------------------------------------
def polygon_case(spec):
    import sparrowpy.geometry as G
    rng = np.random.default_rng([spec["seed"], 100 + spec["idx"]])
    out = {"evaluations": 0, "mismatches": [], "prop_failures": [], "dist": {}, "nontrivial": [],
           "rejected": 0, "traces": 0}
    pg = draw_polygon(rng)
    pts, n = pg["pts"], pg["n"]
    ex = ExactSurface(pts, n)
    tag = dict(kind="polygon", seed=spec["seed"], idx=spec["idx"], k=pg["k"], mode=pg["mode"],
               pts=pts.tolist(), normal=n.tolist())
    out["sample"] = tag
    out["dist"]["orient_" + pg["mode"]] = 1
    out["dist"]["verts_%d" % pg["k"]] = 1

    def mism(stage, what, **kw):
        out["mismatches"].append(dict(stage=stage, what=what, case=dict(tag, **kw)))

    def pfail(test, what, **kw):
        out["prop_failures"].append(dict(test=test, what=what, case=dict(tag, **kw)))

    tok = Tok()
    # ---- rotation matrix (default n_out) and a matrix-vector product
    rot = G._rotation_matrix(n_in=n)
    tok.cmd("q_rotz").vec(n)
    probe = rng.uniform(-3, 3, 3)
    mv = G._matrix_vector_product(matrix=rot, vector=probe)
    tok.cmd("q_mvec").vec(rot[0]).vec(rot[1]).vec(rot[2]).vec(probe)
    # general n_out: random, identical, exactly antiparallel on an axis
    u = rng.random()
    if u < 0.6:
        a_in, a_out = rng.normal(size=3), rng.normal(size=3)
    elif u < 0.8:
        a_in = rng.normal(size=3)
        a_out = a_in.copy()
    else:
        a_in = np.zeros(3)
        a_in[int(rng.integers(0, 3))] = float(rng.choice([-1.0, 1.0])) * float(rng.choice([1.0, 2.0, 0.5]))
        a_out = -a_in
    rot2 = G._rotation_matrix(n_in=a_in, n_out=a_out)
    tok.cmd("q_vis_rot").vec(a_in).vec(a_out)

    # ---- _project_to_plane: 3-d (both modes) and 2-d (the winding loop's use)
    proj_in = []
    for _ in range(6):
        cn = bool(rng.random() < 0.5)
        o3, p3 = rng.uniform(-3, 3, 3), rng.uniform(-3, 3, 3)
        nn = n if rng.random() < 0.5 else rng.normal(size=3)
        if rng.random() < 0.25:       # direction parallel to the plane: the epsilon gate closes
            d = np.cross(nn, rng.normal(size=3))
            p3 = o3 + d
        if abs(abs(float((p3 - o3) @ nn)) - EPS) < 1e-9:
            out["rejected"] += 1
            continue
        proj_in.append((cn, o3, p3, pts[int(rng.integers(0, pg["k"]))], nn))
    for _ in range(3):
        o2 = np.array([*rng.uniform(-3, 3, 2)])
        nl = rng.normal(size=2)
        nl /= np.linalg.norm(nl)
        if rng.random() < 0.3:
            nl = np.array([0.0, 1.0]) if rng.random() < 0.5 else np.array([1e-9, 1.0])
        proj_in.append((False, o2, o2 + np.array([1.0, 0.0]), rng.uniform(-3, 3, 2), nl))
    proj_impl = []
    for (cn, o_, p_, pp_, n_) in proj_in:
        r_ = G._project_to_plane(origin=o_, point=p_, plane_pt=pp_, plane_normal=n_, check_normal=cn)
        proj_impl.append(r_)
        z = (lambda v: np.array([v[0], v[1], 0.0]) if len(v) == 2 else v)
        tok.cmd("q_proj").b(cn).f(EPS).vec(z(o_)).vec(z(p_)).vec(z(pp_)).vec(z(n_))

    # ---- point queries
    qpts, qinfo = [], []
    for _ in range(spec["n_points"]):
        d = draw_uv(rng, pg)
        if d is None:
            out["rejected"] += 1
            continue
        x, ins = d
        u = rng.random()
        h = tiny_height(rng) if u < 0.8 else off_height(rng)
        qpts.append(lift(pg, x, h))
        qinfo.append((ins, h))
    qpts = np.array(qpts).reshape(-1, 3)
    pip_impl = np.array([bool(G._point_in_polygon(point3d=p, polygon3d=pts, plane_normal=n)) for p in qpts])
    tok.cmd("q_pip").f(EPS).f(ETA)
    surf_tok(tok, pts, n).vecs(qpts)

    # ---- segment queries
    segs, skind = [], []

    def add(kind, p, q):
        segs.append((np.asarray(p, dtype=float), np.asarray(q, dtype=float)))
        skind.append(kind)

    for _ in range(spec["n_segs"]):
        kind = ["cross", "cross", "cross", "same_side", "on_in", "on_in", "on_out", "coplanar", "parallel"][
            int(rng.integers(0, 9))]
        d = draw_uv(rng, pg, want_inside={"on_in": True, "on_out": False}.get(kind))
        if d is None:
            out["rejected"] += 1
            continue
        x, ins = d
        x3 = lift(pg, x)
        dirv = rng.normal(size=3)
        dirv /= np.linalg.norm(dirv)
        if abs(float(dirv @ n)) < 0.02:      # keep crossing directions away from the plane
            dirv = dirv + 0.2 * np.sign(float(dirv @ n) or 1.0) * n
            dirv /= np.linalg.norm(dirv)
        if kind == "cross":
            s1, s2 = 10 ** rng.uniform(-1.5, 0.5), 10 ** rng.uniform(-1.5, 0.5)
            add(kind, x3 + s1 * dirv, x3 - s2 * dirv)
        elif kind == "same_side":
            s1, s2 = 10 ** rng.uniform(-1.5, 0.3), 10 ** rng.uniform(-1.5, 0.3)
            add(kind, x3 + s1 * dirv, x3 + (s1 + s2) * dirv)
        elif kind in ("on_in", "on_out"):
            p = lift(pg, x, tiny_height(rng))
            q = x3 + 10 ** rng.uniform(-1.5, 0.5) * dirv * float(rng.choice([-1.0, 1.0]))
            if rng.random() < 0.5:
                add(kind, p, q)
            else:
                add(kind, q, p)
        elif kind == "coplanar":
            d2 = draw_uv(rng, pg)
            if d2 is None or not (ins or d2[1]):
                out["rejected"] += 1
                continue
            add(kind, lift(pg, x, tiny_height(rng)), lift(pg, d2[0], tiny_height(rng)))
        else:  # parallel to the plane at some height: the epsilon gate of _project_to_plane closes
            d2 = draw_uv(rng, pg)
            if d2 is None:
                out["rejected"] += 1
                continue
            h = off_height(rng)
            add(kind, lift(pg, x, h), lift(pg, d2[0], h))
    bv_impl = np.array([bool(G._basic_visibility(p, q, pts, n)) for (p, q) in segs], dtype=bool)
    bv_back = np.array([bool(G._basic_visibility(q, p, pts, n)) for (p, q) in segs], dtype=bool)
    tok.cmd("q_bvis").f(EPS).f(ETA)
    surf_tok(tok, pts, n).i(len(segs))
    for (p, q) in segs:
        tok.vec(p).vec(q)
    tok.cmd("q_bvis").f(EPS).f(ETA)
    surf_tok(tok, pts, n).i(len(segs))
    for (p, q) in segs:
        tok.vec(q).vec(p)

    # ---- run the model
    res = run_driver(tok)
    it = iter(res)
    m_rot = floats(next(it)[1], (3, 3))
    m_mv = floats(next(it)[1])
    m_rot2 = floats(next(it)[1], (3, 3))
    if not close(rot, m_rot):
        mism("_rotation_matrix", "impl %s model %s" % (rot.tolist(), m_rot.tolist()))
    if not close(mv, m_mv, 10.0):
        mism("_matrix_vector_product", "impl %s model %s" % (mv.tolist(), m_mv.tolist()))
    if not close(rot2, m_rot2):
        mism("_rotation_matrix(n_out)", "impl %s model %s" % (rot2.tolist(), m_rot2.tolist()),
             n_in=a_in.tolist(), n_out=a_out.tolist())
    for (cn, o_, p_, pp_, n_), r_ in zip(proj_in, proj_impl):
        name, toks = next(it)
        flag = toks[0] == "1"
        val = floats(toks[1:])[:len(o_)]
        if flag != (r_ is not None) or (flag and not close(r_, val, 10.0)):
            mism("_project_to_plane", "impl %s model %s" % (None if r_ is None else r_.tolist(),
                                                            val.tolist() if flag else None),
                 check_normal=cn, origin=o_.tolist(), point=p_.tolist(), plane_pt=pp_.tolist(),
                 plane_normal=n_.tolist())
        out["traces"] += 1
    m_pip = bools(next(it)[1])
    m_bv = bools(next(it)[1])
    m_bvb = bools(next(it)[1])
    out["traces"] += 3 + len(qpts) + 2 * len(segs)
    out["evaluations"] += len(qpts) + len(segs)

    # ---- point in polygon: model and oracle
    for i, p in enumerate(qpts):
        if bool(pip_impl[i]) != bool(m_pip[i]):
            mism("_point_in_polygon", "impl %s model %s" % (bool(pip_impl[i]), bool(m_pip[i])), point=p.tolist())
        want = ex.pip(p)
        if want is None:
            out["rejected"] += 1
            continue
        pk = "pip_" + ("inside" if want else ("outside_inplane" if abs(qinfo[i][1]) < 1e-9 else "offplane"))
        out["dist"][pk] = out["dist"].get(pk, 0) + 1
        if bool(pip_impl[i]) != want:
            key = "ray_through_vertex" if (not want and ray_vertex_suspect(G, p, pts, n)) else "pip_oracle"
            pfail(key, "_point_in_polygon says %s, the exact half-plane test says %s (point >= 2 mm from the edges)"
                  % (bool(pip_impl[i]), want), point=p.tolist())

    # ---- basic visibility: model, oracle, symmetry
    nontriv = 0
    for i, (p, q) in enumerate(segs):
        if bool(bv_impl[i]) != bool(m_bv[i]) or bool(bv_back[i]) != bool(m_bvb[i]):
            mism("_basic_visibility", "impl %s/%s model %s/%s (forward/backward)" % (
                bool(bv_impl[i]), bool(bv_back[i]), bool(m_bv[i]), bool(m_bvb[i])),
                p=p.tolist(), q=q.tolist(), seg_kind=skind[i])
        want = ex.visible(p, q)
        if want is None or clearance(p, q, pts, n) < CLEAR:
            out["rejected"] += 1
            continue
        key = "seg_%s_%s" % (skind[i], "visible" if want else "hidden")
        out["dist"][key] = out["dist"].get(key, 0) + 1
        nontriv += 1
        if bool(bv_impl[i]) != want:
            sp, sq = float((p - pts[0]) @ n), float((q - pts[0]) @ n)
            xx = p + (q - p) * (sp / (sp - sq)) if sp != sq else p
            k_ = "ray_through_vertex" if (want and ray_vertex_suspect(G, xx, pts, n)) else "segment_oracle"
            pfail(k_, "_basic_visibility says %s, exact segment/polygon oracle says %s (%s)" % (
                "visible" if bv_impl[i] else "hidden", "visible" if want else "hidden", skind[i]),
                p=p.tolist(), q=q.tolist(), seg_kind=skind[i])
        if bool(bv_impl[i]) != bool(bv_back[i]):
            pfail("symmetry", "_basic_visibility(p,q)=%s but _basic_visibility(q,p)=%s" % (
                bool(bv_impl[i]), bool(bv_back[i])), p=p.tolist(), q=q.tolist(), seg_kind=skind[i])
    if nontriv >= 4:
        out["nontrivial"].append(case_hash(tag))
    return out


# --------------------------------------------------------------------------
# case 2: scenes -- shoebox rooms with interior blockers, rotated as a whole
# --------------------------------------------------------------------------
def room_walls(X, Y, Z):
    """the six walls (inward normals), vertex order as harness/scenes.py:shoebox"""
    return [
        (np.array([[0, 0, 0], [X, 0, 0], [X, 0, Z], [0, 0, Z]], float), np.array([0, 1.0, 0])),
        (np.array([[0, Y, 0], [X, Y, 0], [X, Y, Z], [0, Y, Z]], float), np.array([0, -1.0, 0])),
        (np.array([[0, 0, 0], [X, 0, 0], [X, Y, 0], [0, Y, 0]], float), np.array([0, 0, 1.0])),
        (np.array([[0, 0, Z], [X, 0, Z], [X, Y, Z], [0, Y, Z]], float), np.array([0, 0, -1.0])),
        (np.array([[0, 0, 0], [0, 0, Z], [0, Y, Z], [0, Y, 0]], float), np.array([1.0, 0, 0])),
        (np.array([[X, 0, 0], [X, 0, Z], [X, Y, Z], [X, Y, 0]], float), np.array([-1.0, 0, 0])),
    ]


def subdivide(quad, n1, n2):
    a, b, c, d = quad
    out = []
    for i in range(n1):
        for j in range(n2):
            def pt(u, v):
                return a + (b - a) * u + (d - a) * v
            out.append(np.array([pt(i / n1, j / n2), pt((i + 1) / n1, j / n2),
                                 pt((i + 1) / n1, (j + 1) / n2), pt(i / n1, (j + 1) / n2)]))
    return out


def draw_scene(rng, max_centers):
    dims = np.round(rng.uniform(1.5, 6.0, 3), 3)
    walls = room_walls(*dims)
    patches, pnorm = [], []
    for w, (quad, n) in enumerate(walls):
        n1, n2 = int(rng.integers(1, 3)), int(rng.integers(1, 3))
        if len(patches) + n1 * n2 + (5 - w) > max_centers - 2:     # keep room for the remaining walls + blockers
            n1, n2 = 1, 1
        for pq in subdivide(quad, n1, n2):
            patches.append(pq)
            pnorm.append(n)
    nblock = int(rng.integers(0, 3))
    blockers = []
    quads_only = rng.random() < 0.5
    for _ in range(nblock):
        for _try in range(100):
            c = rng.uniform(0.3, 0.7, 3) * dims
            mode = "random" if rng.random() < 0.6 else "axis"
            k = 4 if quads_only else None
            pg = draw_polygon(rng, mode=mode, k=k, scale=0.22 * float(dims.min()), origin=c)
            if np.all(pg["pts"] > 0.05 * dims) and np.all(pg["pts"] < 0.95 * dims):
                blockers.append((pg["pts"], pg["n"] * (1.0 if rng.random() < 0.5 else -1.0)))
                break
    pmode = "patches" if rng.random() < 0.5 else "walls"
    surfs = ([(p, n) for p, n in zip(patches, pnorm)] if pmode == "patches" else list(walls)) + blockers
    centers = [p.sum(axis=0) / len(p) for p in patches] + [b[0].sum(axis=0) / len(b[0]) for b in blockers]
    evalpts = [rng.uniform(0.1, 0.9, 3) * dims for _ in range(2)]
    outside = rng.uniform(0.2, 0.8, 3) * dims
    ax = int(rng.integers(0, 3))
    outside[ax] = dims[ax] + rng.uniform(0.3, 1.0) if rng.random() < 0.5 else -rng.uniform(0.3, 1.0)
    evalpts.append(outside)
    rotated = bool(rng.random() < 0.6)
    Q = rand_orthogonal(rng) if rotated else np.eye(3)
    t = rng.uniform(-3, 3, 3) if rng.random() < 0.7 else np.zeros(3)
    far = bool(rng.random() < 0.2)
    if far:
        # a scene given in geo-referenced coordinates: offsets of 10 km .. 5000 km (integers, so that the
        # translated coordinates stay exactly representable up to the usual rounding of the sum)
        t = np.round(rng.choice([-1.0, 1.0], 3) * 10 ** rng.uniform(4.0, 6.7, 3))
        if rng.random() < 0.5:
            t[int(rng.integers(0, 3))] = 0.0

    def tp(x):
        return np.asarray(x, dtype=float) @ Q.T + t
    surfs = [(tp(p), (n @ Q.T) / np.linalg.norm(n @ Q.T) if rotated else n) for (p, n) in surfs]
    centers = np.array([tp(c) for c in centers])
    evalpts = [tp(e) for e in evalpts]
    return dict(dims=dims, surfs=surfs, centers=centers, evalpts=evalpts, rotated=rotated, pmode=pmode,
                nblock=len(blockers), quads_only=quads_only, far=far)


def scene_case(spec):
    import sparrowpy.geometry as G
    rng = np.random.default_rng([spec["seed"], 5000 + spec["idx"]])
    out = {"evaluations": 0, "mismatches": [], "prop_failures": [], "dist": {}, "nontrivial": [],
           "rejected": 0, "traces": 0}
    sc = draw_scene(rng, spec["max_centers"])
    polys = [s[0] for s in sc["surfs"]]
    normals = [s[1] for s in sc["surfs"]]
    centers = sc["centers"]
    npatch = len(centers)
    tag = dict(kind="scene", seed=spec["seed"], idx=spec["idx"], max_centers=spec["max_centers"],
               dims=sc["dims"].tolist(), n_centers=npatch, n_surfaces=len(polys), blockers=sc["nblock"],
               rotated=sc["rotated"], surfaces=sc["pmode"])
    out["sample"] = tag
    out["dist"]["scene_blockers_%d" % sc["nblock"]] = 1
    out["dist"]["scene_%s" % ("rotated" if sc["rotated"] else "axis_aligned")] = 1
    out["dist"]["scene_surfaces_" + sc["pmode"]] = 1
    if sc.get("far"):
        out["dist"]["scene_far_from_origin"] = 1
    ragged = len({len(p) for p in polys}) > 1
    sp_arg = polys if ragged else np.array(polys)
    sn_arg = np.array(normals)

    def mism(stage, what, **kw):
        out["mismatches"].append(dict(stage=stage, what=what, case=dict(tag, **kw)))

    def pfail(test, what, **kw):
        out["prop_failures"].append(dict(test=test, what=what, case=dict(tag, **kw)))

    M = G._check_patch2patch_visibility(centers, sn_arg, sp_arg)
    V = [G._check_point2patch_visibility(e, centers, sn_arg, sp_arg) for e in sc["evalpts"]]

    tok = Tok().cmd("q_vis_p2p").f(EPS).f(ETA).vecs(centers).i(len(polys))
    for p, n in zip(polys, normals):
        surf_tok(tok, p, n)
    for e in sc["evalpts"]:
        tok.cmd("q_pt2p").f(EPS).f(ETA).vec(e).vecs(centers).i(len(polys))
        for p, n in zip(polys, normals):
            surf_tok(tok, p, n)
    res = run_driver(tok)
    b = bools(res[0][1])
    m_loop, m_all = b[:npatch * npatch].reshape(npatch, npatch), b[npatch * npatch:].reshape(npatch, npatch)
    exs = [ExactSurface(p, n) for p, n in zip(polys, normals)]

    # oracle for all pairs / points (also tells which ones are in general position)
    want = {}
    for i in range(npatch):
        for j in range(i + 1, npatch):
            want[(i, j)] = oracle_pair(exs, polys, normals, centers[i], centers[j])
    gp = np.zeros((npatch, npatch), dtype=bool)
    for (i, j), (v, _) in want.items():
        gp[i, j] = v is not None
    gp |= np.tril(np.ones((npatch, npatch), dtype=bool))      # i >= j: always compared
    for name, mm in (("while-loop form", m_loop), ("forallb form", m_all)):
        d = (np.asarray(M, dtype=bool) != mm) & gp
        if d.any():
            i, j = [int(x) for x in np.argwhere(d)[0]]
            mism("_check_patch2patch_visibility", "%s: at (%d,%d) impl=%s model=%s (%d entries differ)" % (
                name, i, j, bool(M[i, j]), bool(mm[i, j]), int(d.sum())), i=i, j=j)
    out["traces"] += 1
    # property: strictly upper triangular
    if np.tril(np.asarray(M, dtype=bool)).any():
        i, j = [int(x) for x in np.argwhere(np.tril(np.asarray(M, dtype=bool)))[0]]
        pfail("upper_triangle", "visibility matrix entry (%d,%d) with i >= j is True" % (i, j), i=i, j=j)
    nvis = nhid = 0
    for (i, j), (v, why) in want.items():
        if v is None:
            out["rejected"] += 1
            out["dist"]["rejected_" + why] = out["dist"].get("rejected_" + why, 0) + 1
            continue
        out["evaluations"] += 1
        nvis += v
        nhid += (not v)
        if bool(M[i, j]) != v:
            pfail("patch_matrix_oracle", "patch pair (%d,%d): matrix says %s, exact line-of-sight oracle says %s" % (
                i, j, "visible" if M[i, j] else "hidden", "visible" if v else "hidden"),
                i=i, j=j, p=centers[i].tolist(), q=centers[j].tolist())
        # symmetry of the relation: the scan evaluated in the other direction
        back = all(bool(G._basic_visibility(centers[j], centers[i], polys[s], normals[s])) for s in range(len(polys)))
        if back != bool(M[i, j]):
            pfail("symmetry", "patch pair (%d,%d): %s from i to j but %s from j to i" % (
                i, j, bool(M[i, j]), back), i=i, j=j, p=centers[i].tolist(), q=centers[j].tolist())
    for e, v_impl, r in zip(sc["evalpts"], V, res[1:]):
        bb = bools(r[1])
        v_loop, v_all = bb[:npatch], bb[npatch:]
        gpv = np.zeros(npatch, dtype=bool)
        wantv = []
        for j in range(npatch):
            w, why = oracle_pair(exs, polys, normals, e, centers[j])
            wantv.append(w)
            gpv[j] = w is not None
            if w is None:
                out["rejected"] += 1
                out["dist"]["rejected_" + why] = out["dist"].get("rejected_" + why, 0) + 1
        for name, mm in (("while-loop form", v_loop), ("forallb form", v_all)):
            d = (np.asarray(v_impl, dtype=bool) != mm) & gpv
            if d.any():
                j = int(np.argwhere(d)[0][0])
                mism("_check_point2patch_visibility", "%s: at %d impl=%s model=%s" % (
                    name, j, bool(v_impl[j]), bool(mm[j])), point=e.tolist(), j=j)
        out["traces"] += 1
        for j in range(npatch):
            if wantv[j] is None:
                continue
            out["evaluations"] += 1
            nvis += wantv[j]
            nhid += (not wantv[j])
            if bool(v_impl[j]) != wantv[j]:
                pfail("point_vector_oracle", "point -> patch %d: vector says %s, exact line-of-sight oracle says %s" % (
                    j, "visible" if v_impl[j] else "hidden", "visible" if wantv[j] else "hidden"),
                    j=j, p=e.tolist(), q=centers[j].tolist())
    out["dist"]["scene_pairs_visible"] = int(nvis)
    out["dist"]["scene_pairs_hidden"] = int(nhid)
    if nvis >= 3 and nhid >= 3:
        out["nontrivial"].append(case_hash(tag))
    return out


# --------------------------------------------------------------------------
# case 3: bake_geometry -- the matrix, `visible_patches` and the model's vis_pairs
# --------------------------------------------------------------------------
def bake_case(spec):
    import pyfar as pf
    import sparrowpy as sp
    import sparrowpy.geometry as G
    import scenes as S
    rng = np.random.default_rng([spec["seed"], 9000 + spec["idx"]])
    out = {"evaluations": 0, "mismatches": [], "prop_failures": [], "dist": {"bake_scene": 1}, "nontrivial": [],
           "rejected": 0, "traces": 0}
    cfg = S.draw_config(rng, nb=1, multi_dir=False, att_zero=True, max_patches=spec["max_patches"])
    X, Y, Z = cfg["dims"]
    walls = S.shoebox(X, Y, Z)
    panel = bool(spec.get("panel", rng.random() < 0.6))
    if panel:
        # an interior one-sided panel (one or two patches), axis aligned so that from_polygon can
        # subdivide it; its plane is normal to an axis whose two in-plane room sides leave room
        ps = cfg["patch_size"]
        dims = [X, Y, Z]
        panel = False
        for a in [int(k) for k in rng.permutation(3)]:
            b_, c_ = [k for k in range(3) if k != a]
            if dims[b_] >= 1.4 * ps and dims[c_] >= 1.4 * ps:
                wb = float(np.round(rng.uniform(1.05 * ps, min(2.6 * ps, 0.8 * dims[b_])), 3))
                wc = float(np.round(rng.uniform(1.05 * ps, min(1.9 * ps, 0.8 * dims[c_])), 3))
                b0 = float(np.round(rng.uniform(0.08 * dims[b_], 0.92 * dims[b_] - wb), 3))
                c0 = float(np.round(rng.uniform(0.08 * dims[c_], 0.92 * dims[c_] - wc), 3))
                pa = float(np.round(rng.uniform(0.3, 0.7) * dims[a], 3))
                if not (S.away_from_int(wb / ps, 1e-3) and S.away_from_int(wc / ps, 1e-3)):
                    continue

                def P3(ub, uc):
                    v = [0.0, 0.0, 0.0]
                    v[a], v[b_], v[c_] = pa, ub, uc
                    return v
                nrm = [0.0, 0.0, 0.0]
                nrm[a] = 1.0 if rng.random() < 0.5 else -1.0
                up = [0.0, 0.0, 0.0]
                up[c_] = 1.0
                walls.append(G.Polygon([P3(b0, c0), P3(b0, c0 + wc), P3(b0 + wb, c0 + wc), P3(b0 + wb, c0)], up, nrm))
                panel = True
                break
    radi = sp.DirectionalRadiosityFast.from_polygon(walls, cfg["patch_size"])
    din, dout = S.directions(cfg)
    for w in range(len(walls)):
        tab = np.broadcast_to((1 - cfg["alpha"][w % 6]) / np.pi, (din.csize, dout.csize, cfg["nb"])).copy()
        radi.set_wall_brdf([w], pf.FrequencyData(tab, cfg["freqs"]), din, dout)
    radi.set_air_attenuation(pf.FrequencyData(cfg["att"], cfg["freqs"]))
    radi.bake_geometry()
    M = np.asarray(radi._visibility_matrix, dtype=bool)
    vp = np.asarray(radi._visible_patches)
    centers = radi.patches_center
    polys = [np.asarray(p, dtype=float) for p in radi.patches_points]
    normals = [np.asarray(n, dtype=float) for n in radi.patches_normal]
    npatch = radi.n_patches
    tag = dict(kind="bake", seed=spec["seed"], idx=spec["idx"], max_patches=spec["max_patches"], panel=panel,
               dims=cfg["dims"], patch_size=cfg["patch_size"], n_patches=npatch)
    out["sample"] = tag
    out["dist"]["bake_panel_%d" % int(panel)] = 1

    def pfail(test, what, **kw):
        out["prop_failures"].append(dict(test=test, what=what, case=dict(tag, **kw)))

    # property: visible_patches is the row-major list of the matrix's true entries
    expect = np.array([(i, j) for i in range(npatch) for j in range(npatch) if M[i, j]], dtype=np.int64).reshape(-1, 2)
    if vp.shape != expect.shape or (vp != expect).any():
        pfail("visible_patches", "visible_patches is not the row-major list of the visibility matrix's true entries")
    if np.tril(M).any():
        pfail("upper_triangle", "baked visibility matrix has a True entry with i >= j")
    # model: matrix through q_p2p, pair list through Scene.vis_pairs fed with the matrix
    tok = Tok().cmd("q_vis_p2p").f(EPS).f(ETA).vecs(centers).i(len(polys))
    for p, n in zip(polys, normals):
        surf_tok(tok, p, n)
    res = run_driver(tok)
    b = bools(res[0][1])
    m_loop = b[:npatch * npatch].reshape(npatch, npatch)
    exs = [ExactSurface(p, n) for p, n in zip(polys, normals)]
    nvis = nhid = 0
    gp = np.tril(np.ones((npatch, npatch), dtype=bool))
    for i in range(npatch):
        for j in range(i + 1, npatch):
            v, why = oracle_pair(exs, polys, normals, centers[i], centers[j])
            if v is None:
                out["rejected"] += 1
                out["dist"]["rejected_" + why] = out["dist"].get("rejected_" + why, 0) + 1
                continue
            gp[i, j] = True
            out["evaluations"] += 1
            nvis += v
            nhid += (not v)
            if bool(M[i, j]) != v:
                pfail("patch_matrix_oracle", "baked patch pair (%d,%d): matrix says %s, exact oracle says %s" % (
                    i, j, "visible" if M[i, j] else "hidden", "visible" if v else "hidden"),
                    i=i, j=j, p=centers[i].tolist(), q=centers[j].tolist())
    d = (M != m_loop) & gp
    if d.any():
        i, j = [int(x) for x in np.argwhere(d)[0]]
        out["mismatches"].append(dict(stage="bake_geometry visibility matrix", case=dict(tag, i=i, j=j),
                                      what="at (%d,%d) impl=%s model=%s" % (i, j, bool(M[i, j]), bool(m_loop[i, j]))))
    # Scene.vis_pairs on the implementation's matrix
    stok = S.scene_tokens(radi).cmd("q_pairs")
    pr = run_driver(stok)
    mp = ints(pr[0][1]).reshape(-1, 2)
    if mp.shape != vp.shape or (mp != vp).any():
        out["mismatches"].append(dict(stage="visible_patches vs Scene.vis_pairs", case=tag,
                                      what="impl %d pairs, model %d pairs" % (len(vp), len(mp))))
    out["traces"] += 2
    out["dist"]["scene_pairs_visible"] = int(nvis)
    out["dist"]["scene_pairs_hidden"] = int(nhid)
    if nvis >= 3 and nhid >= 3:
        out["nontrivial"].append(case_hash(tag))
    return out


# --------------------------------------------------------------------------
# case 4: the known defect, as a fixed input with a stable key
# --------------------------------------------------------------------------
def finding_case(spec):
    """A triangle with a 'pointed' vertex at (4,3): the +x ray from the OUTSIDE point (-1,3) enters
    through the side x=0 (count -+1) and leaves exactly through the vertex, where BOTH adjacent
    sides pass the on-segment test (count +-2): the winding count is non-zero and the point,
    1 m away from the triangle, is reported inside.  The band has width 2*5e-7 around the
    vertex' y coordinate in the rotated frame -- a set of positive measure, not a degenerate one."""
    import sparrowpy.geometry as G
    out = {"evaluations": 0, "mismatches": [], "prop_failures": [], "dist": {}, "nontrivial": [],
           "rejected": 0, "traces": 0}
    tri = np.array([[0.0, 0, 0], [4, 3, 0], [0, 6, 0]])
    cases = [("identity", np.eye(3), np.zeros(3), 0.0),
             ("identity_offset_2e-7", np.eye(3), np.zeros(3), 2e-7)]
    # the same configuration tilted about the x axis (keeps the ray direction) and shifted
    th = 0.7
    Rx = np.array([[1, 0, 0], [0, np.cos(th), -np.sin(th)], [0, np.sin(th), np.cos(th)]])
    cases.append(("tilted", Rx, np.array([0.5, -1.0, 2.0]), 0.0))
    for name, R, t, dy in cases:
        pts = tri @ R.T + t
        n = R @ np.array([0.0, 0, 1.0])
        p = np.array([-1.0, 3.0 + dy, 1.0]) @ R.T + t
        q = np.array([-1.0, 3.0 + dy, -1.0]) @ R.T + t
        x = np.array([-1.0, 3.0 + dy, 0.0]) @ R.T + t
        ex = ExactSurface(pts, n)
        want_pip, want_vis = ex.pip(x), ex.visible(p, q)
        cl = clearance(p, q, pts, n)
        tag = dict(kind="finding", name=name, seed=spec["seed"], idx=spec["idx"], pts=pts.tolist(),
                   normal=n.tolist(), p=p.tolist(), q=q.tolist(), clearance_m=cl)
        out["sample"] = tag
        out["evaluations"] += 2
        got_pip = bool(G._point_in_polygon(point3d=x, polygon3d=pts, plane_normal=n))
        got_vis = bool(G._basic_visibility(p, q, pts, n))
        tok = Tok().cmd("q_pip").f(EPS).f(ETA)
        surf_tok(tok, pts, n).vecs([x])
        tok.cmd("q_bvis").f(EPS).f(ETA)
        surf_tok(tok, pts, n).i(1).vec(p).vec(q)
        r = run_driver(tok)
        agree = (bools(r[0][1])[0] == got_pip) and (bools(r[1][1])[0] == got_vis)
        out["dist"]["finding_%s_model_%s" % (name, "agrees" if agree else "DIFFERS")] = 1
        out["traces"] += 2
        if want_vis is not None and cl >= CLEAR and got_vis != want_vis:
            out["prop_failures"].append(dict(
                test="ray_through_vertex", case=tag,
                what="segment %s -> %s passes %.3f m away from the triangle but _basic_visibility reports it "
                     "hidden: _point_in_polygon(%s) = %s (exact oracle: %s)" % (
                         p.tolist(), q.tolist(), cl, x.tolist(), got_pip, want_pip)))
    # second finding: a side that meets the +x ray of the rotated frame at an angle below epsilon
    # (1e-6 rad) is skipped by the 'parallel' gate of _project_to_plane, so an interior point of an
    # extreme sliver triangle is reported outside (PipGeneral.v: the steepness hypothesis of
    # C07_winding_general_position is necessary)
    pts = np.array([[0.0, 0, 0], [2e6, 1.0, 0], [0.0, 2.0, 0]])
    n = np.array([0.0, 0, 1.0])
    x = np.array([1.0, 0.5, 0.0])
    p, q = x + np.array([0, 0, 1.0]), x - np.array([0, 0, 1.0])
    ex = ExactSurface(pts, n)
    want_pip = ex.pip(x)
    got_pip = bool(G._point_in_polygon(point3d=x, polygon3d=pts, plane_normal=n))
    got_vis = bool(G._basic_visibility(p, q, pts, n))
    tok = Tok().cmd("q_pip").f(EPS).f(ETA)
    surf_tok(tok, pts, n).vecs([x])
    r = run_driver(tok)
    out["evaluations"] += 1
    out["traces"] += 1
    out["dist"]["finding_sliver_model_%s" % ("agrees" if bools(r[0][1])[0] == got_pip else "DIFFERS")] = 1
    if bools(r[0][1])[0] != got_pip:
        out["mismatches"].append(dict(stage="sliver witness", what="model %s impl %s" % (bools(r[0][1])[0], got_pip),
                                      case=dict(kind="finding", name="sliver", seed=spec["seed"], idx=spec["idx"])))
    if want_pip and not got_pip:
        out["prop_failures"].append(dict(
            test="sliver_side_skipped",
            case=dict(kind="finding", name="sliver", seed=spec["seed"], idx=spec["idx"], pts=pts.tolist(),
                      normal=n.tolist(), x=x.tolist()),
            what="the point %s lies inside the triangle %s (0.5 m from every edge) but _point_in_polygon "
                 "reports it outside and the segment through it is reported %s" % (
                     x.tolist(), pts.tolist(), "visible" if got_vis else "hidden")))
    return out


def int_case(spec):
    """surfaces given as INTEGER-typed vertex arrays (whole-number coordinates typed without a decimal point),
    tilted against the axes: every answer must be the one for the same numbers given as floats, and the
    exact line-of-sight oracle's"""
    import sparrowpy.geometry as G
    rng = np.random.default_rng([spec["seed"], 91000 + spec["idx"]])
    out = {"evaluations": 0, "mismatches": [], "prop_failures": [], "dist": {"integer_vertex_arrays": 1},
           "nontrivial": [], "rejected": 0, "traces": 0}
    for _ in range(40):
        u = rng.integers(-4, 5, 3); v = rng.integers(-4, 5, 3)
        nrm = np.cross(u, v)
        if np.count_nonzero(nrm) >= 2 and np.dot(u, v) == 0 and np.linalg.norm(u) >= 2 and np.linalg.norm(v) >= 2:
            break
    else:
        out["rejected"] = 1
        return out
    o = rng.integers(-5, 6, 3)
    pts_i = np.array([o, o + u, o + u + v, o + v], dtype=np.int64)
    if rng.random() < 0.5:
        pts_i = pts_i[::-1].copy()
    pts_f = pts_i.astype(float)
    n = nrm / np.linalg.norm(nrm) * (1.0 if rng.random() < 0.5 else -1.0)
    ex = ExactSurface(pts_f, n)
    tag = dict(kind="int", seed=spec["seed"], idx=spec["idx"], pts=pts_i.tolist(), normal=n.tolist())
    out["sample"] = tag
    c = pts_f.mean(axis=0)
    nbad = 0
    for k in range(spec.get("n", 12)):
        a, b = rng.uniform(-0.9, 0.9, 2)
        x = c + a * 0.5 * u + b * 0.5 * v if rng.random() < 0.6 else c + rng.uniform(-1.6, 1.6) * 0.5 * u + rng.uniform(-1.6, 1.6) * 0.5 * v
        h = float(rng.uniform(0.3, 2.0))
        p_, q_ = x + n * h + rng.normal(0, 0.05, 3), x - n * h * rng.uniform(0.5, 1.5) + rng.normal(0, 0.05, 3)
        if clearance(p_, q_, pts_f, n) < CLEAR:
            out["rejected"] += 1
            continue
        out["evaluations"] += 1
        got_i = bool(G._basic_visibility(p_, q_, pts_i, n))
        got_f = bool(G._basic_visibility(p_, q_, pts_f, n))
        want = ex.visible(p_, q_)
        if got_i != got_f or (want is not None and got_i != want):
            nbad += 1
            if nbad == 1:
                out["prop_failures"].append(dict(
                    test="integer_vertex_array", case=dict(tag, p=p_.tolist(), q=q_.tolist()),
                    what="_basic_visibility with the surface %s given as an int64 array answers %s, with the same numbers "
                         "as floats %s, exact line of sight: %s" % (pts_i.tolist(), got_i, got_f, want)))
    if out["evaluations"]:
        out["nontrivial"].append(case_hash(tag))
    return out


CASES = {"int": int_case, "polygon": polygon_case, "scene": scene_case, "bake": bake_case, "finding": finding_case}


def dispatch(spec):
    return CASES[spec["case"]](spec)


def run(res):
    quick = res.tier == "quick"
    n_poly = 600 if quick else 8000
    n_scene = 24 if quick else 320
    n_bake = 6 if quick else 40
    specs = [dict(case="scene", seed=res.seed, idx=i, max_centers=(20 if quick else 30)) for i in range(n_scene)]
    specs += [dict(case="bake", seed=res.seed, idx=i, max_patches=(14 if quick else 24)) for i in range(n_bake)]
    specs += [dict(case="finding", seed=res.seed, idx=0)]
    specs += [dict(case="int", seed=res.seed, idx=i) for i in range(30 if quick else 400)]
    specs += [dict(case="polygon", seed=res.seed, idx=i, n_points=14, n_segs=12) for i in range(n_poly)]
    for r in fw.run_parallel(dispatch, specs):
        res.absorb(r)
    res.rule = (
        "polygon cases: a random convex polygon (3-8 vertices on a random ellipse, both windings, plane exactly "
        "+-z / +-x,y / random orthogonal frame / tilted 1e-13..1e-2 rad off +-z) with 14 point queries (in-plane "
        "inside/outside, on the plane within 1e-10, or >= 3 mm off) and 12 segments (crossing, same side, endpoint on "
        "the surface inside/outside, coplanar, parallel), both evaluation orders; scene cases: shoebox 1.5-6 m with "
        "walls split 1x1..2x2, 0-2 interior convex blockers (quads or 3-8 vertices), surfaces = walls or patches, "
        "whole scene under a random orthogonal matrix + translation (60 %%) or axis aligned, 2 interior + 1 exterior "
        "evaluation points; bake cases: DirectionalRadiosityFast.from_polygon + bake_geometry on a shoebox with an "
        "optional interior one-sided panel.  Rejected (counted): in-plane points/segments closer than 1 mm (points: 2 mm) "
        "to a polygon edge, endpoints between 1e-9 and 1e-3 m off a surface plane.  Non-trivial: polygon case with "
        ">= 4 accepted segments; scene with >= 3 visible and >= 3 hidden accepted pairs; distinct by input hash")
    res.not_carried = NOT_CARRIED
    res.assumptions = [
        "tolerances epsilon = eta = 1e-6 are the keyword defaults of /repo and enter the model as inputs",
        "pure-Python kernels (no numba): ragged surface lists (blockers with 3-8 vertices next to quads) are passed as "
        "Python lists of arrays",
        "np.dot / np.linalg.norm / kmat.dot(kmat) are BLAS calls whose summation order is not modelled: floats are "
        "compared at rel 1e-9 / abs 1e-12, decisions (bools) exactly on general-position inputs",
        "general position = every endpoint is within 1e-9 m of a surface plane or at least 1 mm away from it, and the "
        "segment (for coplanar pairs: its endpoints) is at least 1 mm away from every surface edge",
    ]


def replay(res, payload):
    for f in payload.get("failures", []) + payload.get("correspondence", []):
        c = f.get("case", {})
        kind = c.get("kind")
        if kind == "polygon":
            res.absorb(polygon_case(dict(seed=c["seed"], idx=c["idx"], n_points=14, n_segs=12)))
        elif kind == "scene":
            res.absorb(scene_case(dict(seed=c["seed"], idx=c["idx"], max_centers=c.get("max_centers", 16))))
        elif kind == "bake":
            res.absorb(bake_case(dict(seed=c["seed"], idx=c["idx"], max_patches=c.get("max_patches", 12),
                                      panel=c.get("panel", False))))
        elif kind == "finding":
            res.absorb(finding_case(dict(seed=c.get("seed", 0), idx=0)))
        elif kind == "int":
            res.absorb(int_case(dict(seed=c["seed"], idx=c["idx"])))
