"""C09 -- exchanging source and receiver leaves the energy-time curve unchanged."""
import numpy as np
import pyfar as pf

from common import run_driver, case_hash
import framework as fw
import scenes as S
import pipeline as P

NOT_CARRIED = [
    "the link between a point's two roles IS proved, for the composed room model too (C09_room_reciprocal): receiver "
    "factor = 4 x source share / area from the model of pt_solution and the room's own areas (C09_roles_linked), one "
    "visibility vector per position for both roles; what stays a hypothesis of the room theorem: non-zero patch "
    "areas, ceiling bin = truncation bin + 1 on the legs to VISIBLE patches (follows from 'no leg length is a "
    "multiple of c*dt', C09_room_reciprocal_ordered; the search re-draws such legs), one outgoing slot and BRDF "
    "tables constant over the incoming samples (directional BRDFs are outside the theorem)",
    "histograms too short for the delayed patch energy (np.roll wrap, known finding C02/receiver_wrap) are outside "
    "the 'fits' hypothesis of C09_model_vis / C09_room_reciprocal; the search uses windows holding every arrival",
    "C09_model (kept) asks its diffuse / link / fits hypotheses of ALL indices and is thereby restricted to "
    "reflectance 0 (C09_model_diffuse_everywhere_forces_zero); the statement that carries the property is "
    "C09_model_vis and its room instance; that the visibility scan of the room is the geometric line of sight is "
    "C07, not re-proved here",
]


def scene_case(spec):
    rng = np.random.default_rng([spec["seed"], spec["idx"]])
    out = {"evaluations": 1, "mismatches": [], "prop_failures": [], "dist": {}, "nontrivial": []}
    nb = int(rng.integers(1, 3))
    cfg = S.draw_config(rng, nb=nb, multi_dir=(spec["idx"] % 4 == 3), max_patches=spec["max_patches"])
    K = int(rng.integers(1, 5))
    radi = S.build(cfg)
    A = S.draw_inside(rng, cfg["dims"])
    B = S.draw_inside(rng, cfg["dims"])
    tmode = "coarse" if spec["idx"] % 3 == 1 else "long"
    c, dt, dur = P.draw_timing(rng, cfg, K, tmode, radi, A, [B])
    # the same timing must be free of rounding edges for the reverse direction as well
    cen = radi.patches_center
    alld = np.concatenate([np.linalg.norm(cen - A, axis=1), np.linalg.norm(cen - B, axis=1)])
    if S.near_int_delay(alld, c, dt, 1e-7):
        out["rejected"] = 1
        return out
    tag = dict(dims=cfg["dims"], patch_size=cfg["patch_size"], n_patches=cfg["n_patches"], nb=nb,
               alpha=cfg["alpha"].tolist(), att=cfg["att"].tolist(), A=A.tolist(), B=B.tolist(),
               c=c, dt=dt, dur=dur, K=K, nt=cfg["nt"], seed=spec["seed"], idx=spec["idx"])
    out["sample"] = tag
    out["dist"]["order_%d" % K] = 1
    out["dist"]["timing_" + tmode] = 1
    out["dist"]["bands_%d" % nb] = 1
    if len(set(np.round(cfg["alpha"][:, 0], 6))) > 1:
        out["dist"]["nonuniform_walls"] = 1
    if np.any(cfg["att"] > 0):
        out["dist"]["attenuated"] = 1
    curves = []
    for (s, r) in [(A, B), (B, A)]:
        impl = P.impl_pipeline(radi, s, c, dt, dur, K, [r])
        tok = P.model_session(radi, s, c, dt, dur, K, [r])
        mism, mu = P.compare_stages(radi, impl, run_driver(tok), K, [r], dur, dt, src=s)
        out["max_ulp"] = max(out.get("max_ulp", 0.0), mu)
        out["traces"] = out.get("traces", 0) + 1
        for m in mism:
            if m.get("rejected"):
                out["rejected"] = out.get("rejected", 0) + 1
                continue
            m.update(case=tag)
            out["mismatches"].append(m)
        curves.append(impl["mono"][0])
        # the role link: receiver factor = 4 x source share / area
        sh_s = S.point_shares(radi, s, "source")
        sh_r = S.point_shares(radi, s, "receiver")
        if np.any(np.abs(sh_r * radi.patches_area - 4 * sh_s) > 1e-12 * np.abs(4 * sh_s) + 1e-300):
            out["prop_failures"].append(dict(test="role_link", case=tag,
                                             what="receiver factor is not 4 x source share / area"))
    ab, ba = curves
    peak = max(float(np.abs(ab).max()), 1e-300)
    diff = np.abs(ab - ba)
    if np.any(diff > 1e-9 * peak):
        idx = np.unravel_index(int(np.argmax(diff)), diff.shape)
        out["prop_failures"].append(dict(test="reciprocity", at=[int(x) for x in idx], ab=float(ab[idx]), ba=float(ba[idx]),
                                         rel_to_peak=float(diff.max() / peak), case=tag,
                                         what="curve at B for a source at A differs from the curve at A for a source at B"))
    # an order sweep on one initialised object (source set once, exchange recalculated for several orders):
    # at the last order the two directions must still be reciprocal
    sweep = []
    for (s_, r_) in [(A, B), (B, A)]:
        radi.init_source_energy(pf.Coordinates(*s_))
        for k_ in sorted({1, max(1, K - 1), K}):
            radi.calculate_energy_exchange(c, dt, dur, k_, recalculate=True)
        sweep.append(radi.collect_energy_receiver_mono(pf.Coordinates(*r_)).time[0].copy())
    d2 = np.abs(sweep[0] - sweep[1])
    pk2 = max(float(np.abs(sweep[0]).max()), 1e-300)
    if np.any(d2 > 1e-9 * pk2):
        idx = np.unravel_index(int(np.argmax(d2)), d2.shape)
        out["prop_failures"].append(dict(test="reciprocity_after_order_sweep", at=[int(x) for x in idx], case=tag,
                                         rel_to_peak=float(d2.max() / pk2),
                                         what="after recalculating the exchange for the orders 1..%d on one initialised object the "
                                              "curve at B for a source at A differs from the curve at A for a source at B "
                                              "(%.3g of the peak)" % (K, float(d2.max() / pk2))))
    elif np.any(np.abs(sweep[0] - ab) > 1e-9 * peak):
        out["prop_failures"].append(dict(test="reciprocity_after_order_sweep", case=tag,
                                         what="the curve after an order sweep on the same object differs from the curve of the "
                                              "direct run at the same order"))
    if K >= 2 and len(set(np.round(cfg["alpha"][:, 0], 6))) > 1:
        out["nontrivial"].append(case_hash(tag))
    return out


def run(res):
    quick = res.tier == "quick"
    specs = [dict(seed=res.seed, idx=i, max_patches=(18 if quick else 34)) for i in range(10 if quick else 300)]
    for r in fw.run_parallel(scene_case, specs):
        res.absorb(r)
    res.rule = ("non-cubic shoeboxes with per-wall absorption (incl. exact 0/1), 1-2 bands, m >= 0, orders 1-4, "
                "windows holding every arrival; both directions are run through /repo and the model; "
                "non-trivial = non-uniform walls and order >= 2")
    res.not_carried = NOT_CARRIED
    res.assumptions = ["leg lengths within 1e-7 of a multiple of c*dt are re-drawn (the theorem's bin hypothesis)"]


def replay(res, payload):
    for f in payload.get("failures", []) + payload.get("correspondence", []):
        case = f.get("case", {})
        res.absorb(scene_case(dict(seed=case["seed"], idx=case["idx"], max_patches=34)))
