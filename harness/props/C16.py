"""C16 -- a baked object can be reused: results depend only on the final configuration.

Random op sequences are executed on the real DirectionalRadiosityFast object and on the extracted L2 state
machine (Model/Object.v) exactly as for C15.  The property statement is evaluated on the implementation:
  * final configuration: a history ending in bake; init_source; exchange(recalculate=True) is compared,
    bit for bit, with the canonical history (one set_wall_brdf per wall in wall order, set_air_attenuation,
    the same three stages) of its effective configuration on a fresh object;
  * repeating bake / init_source / exchange(recalculate=True) / set_air_attenuation leaves all 25 attributes
    bit-identical;
  * all orders of 2-3 setter calls give bit-identical stage results;
  * every caller-owned object (tables, attenuation data and raw arrays, direction / source / receiver
    coordinates incl. weights, wall-index lists, the direction lists of dictionaries handed to from_dict) is
    hashed before and after EVERY public call."""
import os
import shutil
import itertools

import numpy as np

import common
from common import case_hash
import framework as fw
import objmodel as M

NOT_CARRIED = [
    "C16_final_config IS proved over all histories and all states (C16_final_config_history_independent, "
    "C16_final_config_state_independent): two histories / states that agree on the configuration fields answer the "
    "tail bake; init_source; exchange(recalculate) with the same classes up to the first failure and, on success, "
    "with the same provenance of every receiver collection; no cached field enters.  NOT proved there: "
    "'configuration equality' in that theorem is equality of the RAW brdf table list and brdf_index (plus geometry, "
    "frequencies, direction lists, attenuation), not equality of the per-wall resolution; that only the per-wall "
    "resolution enters the tilde / e0 provenance is the separate C16_final_config_partial (overwritten tables, "
    "setter order vanish from wall_cfg), and the two are joined only on the concrete instance "
    "Instances/ObjectExamples.final_config_instance (vm_compute) and by the harness comparison of every history "
    "with the canonical history of its effective configuration (a stale table of another shape does make the raw "
    "list matter: C16_final_config_refuted_stale_table).  'Configuration equality' there is moreover LEIBNIZ equality "
    "of the twelve descriptors (kind, shape, provenance and ownership tag): a dictionary / file round trip changes "
    "kinds and ownership tags, so those two theorems do not relate a history to one that differs from it by a round "
    "trip (Instances/NonVacuityB.v: cfg_eq_is_leibniz, hist3_not_cfg_eq).  That gap is closed by "
    "C16_final_config_history_independent_sim (hypothesis: the configuration fields agree after the normalisation "
    "norm of C15; implied by the old hypothesis, C16_cfg_eq_implies_normalised; conclusion: same classes up to the "
    "first failure and, on success, the same receiver collection WITHOUT direct sound -- the direct sound reads the "
    "unserialised _source); witness with a file and a dictionary round trip: "
    "Instances/NonVacuityB.v, final_config_history_independent_sim_applies",
    "the configuration in force = the six geometry attributes, frequencies, air_attenuation, the two direction lists "
    "and brdf resolved through brdf_index; histories in which init_source_energy installed its default BRDF are "
    "refuted (C16_final_config_refuted_default_brdf, finding default_install_rebake); an overwritten table of another "
    "shape makes bake raise although the configuration in force is valid (C16_final_config_refuted_stale_table, "
    "finding stale_table_shape)",
    "C16_idempotent is proved as Leibniz equality of all 25 attributes, for every state, for bake_geometry, "
    "init_source_energy (C16_idempotent_init_source; holds also when the first call installed the default BRDF / "
    "frequencies / attenuation), calculate_energy_exchange(recalculate=True) and set_air_attenuation; the whole tail "
    "bake; init_source; exchange(recalculate) run twice ends in the same state as run once PROVIDED the direction "
    "lists and the attenuation are set when the tail starts, i.e. init_source_energy installs no default "
    "(C16_idempotent_tail); without materials that is refuted (C16_final_config_refuted_default_brdf), without an "
    "attenuation only the provenance of form_factors_tilde differs (None vs the installed zeros, numerically the same "
    "factor 1: C16_idempotent_tail_needs_attenuation).  NOT proved: idempotence of set_wall_brdf (it is not "
    "idempotent: every call appends its table to the brdf list)",
    "calculate_energy_exchange WITHOUT recalculate keeps the old histogram but overwrites speed / resolution / "
    "duration (modelled faithfully; outside the property, which asks for recalculation; see C15 finding "
    "restore_refused_stale_cache)",
    "C16_frame: only the refutation (C16_frame_refuted_dict_list) and an instance are proved; that no numpy kernel "
    "writes through an alias is checked on the implementation (hash of every caller-owned object before and after "
    "every call)",
    "aliasing found (not a mutation): _frequencies IS the frequencies array of the first FrequencyData handed to a "
    "setter, _air_attenuation is a view of the caller's attenuation data (and of the raw numpy array it was built "
    "from), _source IS the caller's coordinate object, the constructor keeps caller ndarrays (atleast_3d does not "
    "copy); no method writes through them",
]

STAGE_FIELDS = ["form_factors_tilde", "patch_2_brdf_outgoing_index", "energy_init_source",
                "distance_patches_to_source", "energy_exchange_etc", "visibility_matrix", "form_factors"]


def stage_hashes(snap):
    return {f: (None if snap[M.FIELDS.index(f)] is None else
                (snap[M.FIELDS.index(f)]["shape"], snap[M.FIELDS.index(f)]["hash"])) for f in STAGE_FIELDS}


def is_tail(ops):
    return (len(ops) >= 3 and ops[-3][0] == "bake" and ops[-2][0] == "src"
            and ops[-1][0] == "exch" and ops[-1][3])


def case(spec):
    rng = np.random.default_rng([spec["seed"], spec["idx"]])
    out = {"evaluations": 1, "mismatches": [], "prop_failures": [], "dist": {}, "nontrivial": []}
    dist = out["dist"]

    def count(k, n=1):
        dist[k] = dist.get(k, 0) + n

    env = M.Env(rng)
    env.tmpdir = os.path.join(common.TMP, "c16_%d_%d" % (os.getpid(), spec["idx"]))
    tag = dict(env.tag(), seed=spec["seed"], idx=spec["idx"])
    out["sample"] = tag
    ops = M.gen_ops(rng, env, dist, n_roundtrips=(0, 1), tail_prob=0.8)
    tag["ops"] = [list(o) for o in ops]
    count("patches_%02d" % env.np)
    count("bands_%d" % env.nb)
    count("dirs_%d" % (1 if env.single else env.ndir[1]))
    count("ops", len(ops))
    reg = M.Registry()
    prev = {"op": None, "cls": None, "snap": None}
    checks = {"repeat": 0, "final": 0, "perm": 0}

    def fail(test, what, **kw):
        out["prop_failures"].append(dict(test=test, what=what, case=tag, **kw))

    def hook(i, op, cls, x_before, x, snap, obs_hash):
        count("op_%s" % op[0])
        count("class_%s" % cls)
        repeatable = op[0] in ("bake", "src", "att") or (op[0] == "exch" and op[3])
        if repeatable and prev["op"] == op and prev["cls"] == "Ok":
            checks["repeat"] += 1
            count("repeat_%s" % op[0])
            if cls != "Ok":
                fail("repeat_changes_state", "#%d: repeating %s raises %s" % (i, op[0], cls))
            elif M.state_hashes(snap) != M.state_hashes(prev["snap"]):
                diff = [f for f, a, b in zip(M.FIELDS, M.state_hashes(snap), M.state_hashes(prev["snap"])) if a != b]
                fail("repeat_changes_state", "#%d: repeating %s with the same arguments changes %s" % (i, op[0], diff))
        prev.update(op=op, cls=cls, snap=snap)

    try:
        r = M.run_history(env, ops, reg, out, tag, "h", hook=hook, frame=True)
        # ---- final configuration
        if is_tail(ops):
            walls, att = M.effective_config(env, ops, r["classes"])
            canon = M.canonical_ops(walls, att, ops[-3:])
            rc = M.run_history(env, canon, reg, out, tag, "canon", frame=True)
            checks["final"] += 1
            th, tc = r["classes"][-3:], rc["classes"][-3:]
            complete = all(w is not None for w in walls) and att is not None
            count("final_config_%s" % ("complete" if complete else "defaults"))
            if th != tc:
                ndirs = set(env.ndir[env.tab[t][0]] for t in walls if t is not None)
                if tc == ["Ok"] * 3 and "ValueError" in th and len(ndirs) == 1:
                    fail("stale_table_shape",
                         "the history's final stages answer %s, the canonical history of the same effective "
                         "configuration %s" % (th, tc), effective=dict(walls=walls, att=att))
                elif not complete:
                    fail("default_install_rebake", "final stages answer %s, canonical %s (defaults in force)" % (th, tc))
                else:
                    fail("final_config_class", "final stages answer %s, canonical %s" % (th, tc))
            elif th == ["Ok"] * 3:
                a, b = stage_hashes(r["snaps"][-1]), stage_hashes(rc["snaps"][-1])
                diff = [f for f in STAGE_FIELDS if a[f] != b[f]]
                if diff:
                    fail("final_config_differs" if complete else "default_install_rebake",
                         "history and canonical history of the same effective configuration differ in %s" % diff,
                         effective=dict(walls=walls, att=att))
        # ---- setter permutations
        if spec["idx"] % 3 == 0:
            k = int(rng.integers(2, 4))            # k calls: k-1 wall groups covering all walls + attenuation
            ws = [int(w) for w in rng.permutation(6)]
            if k == 2:
                groups = [sorted(ws)]
            else:
                c = int(rng.integers(1, 6))
                groups = [sorted(ws[:c]), sorted(ws[c:])]
            calls = [("brdf", gr, int(rng.choice(env.primary_tabs))) for gr in groups] + [("att", 1)]
            tail = [("bake",), ("src", 1), ("exch", 1, 2, True)]
            ref = None
            for perm in itertools.permutations(range(len(calls))):
                x = env.new_object()
                cls = []
                for o in [calls[j] for j in perm] + tail:
                    c, _o, x = M.apply_op(env, x, o)
                    cls.append(c)
                h = (cls, stage_hashes(M.snapshot(env, x)))
                checks["perm"] += 1
                if ref is None:
                    ref = h
                elif h != ref:
                    fail("setter_order", "setter order %s gives other results than order 0..%d" % (list(perm), len(calls) - 1),
                         calls=[list(c) for c in calls])
                    break
    finally:
        shutil.rmtree(env.tmpdir, ignore_errors=True)
    out["traces"] = r["compared"]
    count("checks_repeat", checks["repeat"])
    count("checks_final", checks["final"])
    count("checks_perm", checks["perm"])
    if r["compared"] >= 8 and (checks["final"] or checks["repeat"] or checks["perm"]):
        out["nontrivial"].append(case_hash(tag))
    return out


def run(res):
    quick = res.tier == "quick"
    n = 48 if quick else 900
    for r in fw.run_parallel(case, [dict(seed=res.seed, idx=i) for i in range(n)]):
        res.absorb(r)
    res.rule = ("op sequences as for C15 (0-1 round trips), 80 % ending in bake; init_source; exchange(recalculate); "
                "stage repeats inserted with probability 0.2 per stage call; every third case also runs all orders "
                "of 2-3 setter calls; non-trivial = >= 8 compared calls and at least one final-configuration, repeat "
                "or permutation comparison; distinct by case hash")
    res.not_carried = NOT_CARRIED
    res.assumptions = [
        "the effective configuration of a history is computed by the harness from the calls the implementation "
        "accepted (per wall the last accepted table, the last accepted attenuation)",
        "geometry descriptor and caller data as for C15",
        "runs stop being compared with the model at the first call for which it answers Unspec",
    ]


def replay(res, payload):
    done = set()
    for f in payload.get("failures", []) + payload.get("correspondence", []):
        c = f.get("case", {})
        key = (c.get("seed"), c.get("idx"))
        if None in key or key in done:
            continue
        done.add(key)
        res.absorb(case(dict(seed=key[0], idx=key[1])))
