"""C08 -- patch subdivision is an exact congruent tiling of each wall (both engines)."""
from fractions import Fraction as F

import numpy as np

from common import Tok, run_driver, floats, ints, cmp_float, cmp_exact, case_hash, ulp_dist
import framework as fw

NOT_CARRIED = [
    "floating point: the theorems hold in every ordered field; in float64 the last cell edge x_min + n*(s/n) "
    "equals x_max only up to rounding, and translation equivariance holds only up to rounding -- the harness "
    "measures both at 1e-9 relative and exactly on inputs with short binary expansions",
    "C08_patch_area (the code's _polygon_area of a cell equals the product of its side lengths) assumes the "
    "square-root laws, which have no instance in Instances/ (Qc has no square roots; an instance over R would "
    "rest on the stdlib real-number axioms); all other theorems are instantiated at Qc in Instances/TilingQc.v, "
    "and C08_area_sum states the area clause without square roots",
    "C08_axis_permutation / _index / _vertices / C08_kang_axis_permutation (the 48 signed axis permutations map the "
    "tiling of a wall onto the tiling of the image wall, patches renumbered, vertices reordered by one fixed order) are "
    "identities of exact ordered-field arithmetic, instantiated at Qc in Instances/TilingQc.v; in float64 a mirrored "
    "cell edge -(x_max) + k*s equals -(x_min + (n-k)*s) only up to rounding.  This check does not run the code on "
    "permuted walls; C17's harness matches the patch centres of the 48 placed scenes through sigma",
    "walls that are not axis-aligned rectangles (no zero extent: the code raises UnboundLocalError; the model's "
    "tiling_defined is false) are outside the property; only the raise/undefined agreement is checked",
]

AXES = {0: (1, 2), 1: (0, 2), 2: (0, 1)}     # flat axis -> (x_idx, y_idx) chosen by the if-cascade
NEAR = 1e-6


def make_wall(f, c, xl, xh, yl, yh):
    """corners of the rectangle in cyclic order, flat axis f at coordinate c"""
    xi, yi = AXES[f]
    pts = np.empty((4, 3))
    for k, (x, y) in enumerate([(xl, yl), (xh, yl), (xh, yh), (xl, yh)]):
        pts[k, f] = c
        pts[k, xi] = x
        pts[k, yi] = y
    return pts


def reorder(pts, o):
    """the 8 vertex orders of a rectangle: 4 rotations x 2 directions"""
    base = pts[::-1] if o >= 4 else pts
    return np.roll(base, o % 4, axis=0).copy()


def ratio_status(lo, hi, p):
    """exact ratio (hi-lo)/p of the float inputs; returns (floor, kind) with kind in
    'ok' | 'exact_integer' | 'near' (reject)"""
    r = (F(float(hi)) - F(float(lo))) / F(float(p))
    n = r.numerator // r.denominator
    if r.denominator == 1:
        # an exact integer ratio is only safe if the float computation reproduces it exactly
        if (float(hi) - float(lo)) / float(p) == float(r):
            return int(n), "exact_integer"
        return int(n), "near"
    if abs(r - round(r)) < F(1, 10**6):
        return int(n), "near"
    return int(n), "ok"


def wall_ok(w, p):
    """(nx, ny, kinds) for wall w = dict(f,c,xl,xh,yl,yh), or None if near an integer edge"""
    nx, kx = ratio_status(w["xl"], w["xh"], p)
    ny, ky = ratio_status(w["yl"], w["yh"], p)
    if kx == "near" or ky == "near" or nx < 1 or ny < 1:
        return None
    return nx, ny, (kx, ky)


def draw_wall(rng, mode, f, p=None, r=None):
    """draw a wall (and, when p is None, a patch size for it)"""
    if mode == "dyadic":
        if r is None:
            r = int(rng.integers(4, 25)) / 16.0
        e = 0.0 if (p is not None and p == r) or rng.random() < 0.5 else 1.0 / 16
        nx = int(rng.choice([1, 2, 4, 8])) if p is None else int(rng.integers(1, 7))
        ny = int(rng.choice([1, 2, 4, 8])) if p is None else int(rng.integers(1, 7))
        sx, sy = nx * r, ny * r * (1 + e)
        if rng.random() < 0.5:
            sx, sy = sy, sx
        if p is None:
            p = r if (e == 0.0 and rng.random() < 0.4) else r * 15.0 / 16
        off = [int(k) / 4.0 for k in rng.integers(-20, 21, 3)]
    else:
        sx = float(rng.uniform(0.5, 4.0))
        sy = float(np.clip(sx * rng.uniform(0.4, 2.5), 0.5, 6.0))
        if p is None:
            u = float(rng.uniform(1.0, 12.0)) if rng.random() < 0.8 else float(rng.uniform(1.0, 2.0))
            p = min(sx, sy) / u
        else:
            sx, sy = max(sx, p * 1.01), max(sy, p * 1.01)
        off = [float(x) for x in rng.uniform(-10, 10, 3)]
    w = dict(f=int(f), c=off[0], xl=off[1], xh=off[1] + sx, yl=off[2], yh=off[2] + sy)
    return w, float(p), r


def wall_pts(w):
    return make_wall(w["f"], w["c"], w["xl"], w["xh"], w["yl"], w["yh"])


def normal_of(f, sign):
    n = np.zeros(3)
    n[f] = sign
    return n


def up_of(f):
    u = np.zeros(3)
    u[AXES[f][0]] = 1.0
    return u


def rects(P, f):
    """per-patch extents (xl, xh, yl, yh) on the in-plane axes"""
    xi, yi = AXES[f]
    X, Y = P[:, :, xi], P[:, :, yi]
    return X.min(1), X.max(1), Y.min(1), Y.max(1)


def check_tiling(P, areas, w, nx, ny, rng, label):
    """the property statement on the implementation's patches of one wall; list of failures"""
    fails = []
    f, c = w["f"], w["c"]
    xi, yi = AXES[f]
    sx, sy = F(w["xh"]) - F(w["xl"]), F(w["yh"]) - F(w["yl"])
    scale = max(1.0, abs(w["xl"]), abs(w["xh"]), abs(w["yl"]), abs(w["yh"]))
    tol = 1e-9 * scale

    def fail(test, what):
        fails.append({"test": test, "what": "%s: %s" % (label, what)})

    if P.shape[0] != nx * ny:
        fail("count", "%d patches, expected floor(sx/p)*floor(sy/p) = %d*%d" % (P.shape[0], nx, ny))
    if P.shape[0] == 0:
        return fails
    if not np.all(P[:, :, f] == c):
        fail("plane", "a patch vertex leaves the wall's plane (flat coordinate != %r)" % c)
    # congruent rectangles: parallelogram with orthogonal adjacent edges and the common side lengths
    e01 = P[:, 1] - P[:, 0]
    e03 = P[:, 3] - P[:, 0]
    if np.abs(P[:, 0] + P[:, 2] - P[:, 1] - P[:, 3]).max() > 2 * tol:
        fail("rectangle", "vertices 0,1,2,3 of a patch do not form a parallelogram in this order")
    if np.abs(np.sum(e01 * e03, axis=1)).max() > tol * scale:
        fail("rectangle", "adjacent edges of a patch are not orthogonal")
    l1, l3 = np.linalg.norm(e01, axis=1), np.linalg.norm(e03, axis=1)
    want = sorted([float(sx / nx), float(sy / ny)])
    got = np.sort(np.stack([l1, l3], axis=1), axis=1)
    if np.abs(got - np.array(want)[None, :]).max() > 2 * tol:
        k = int(np.argmax(np.abs(got - np.array(want)[None, :]).max(axis=1)))
        fail("congruent", "patch %d has side lengths %r, expected %r" % (k, got[k].tolist(), want))
    xl, xh, yl, yh = rects(P, f)
    # every cell inside the wall's bounding box; union has the bounding box
    if xl.min() < w["xl"] - tol or xh.max() > w["xh"] + tol or yl.min() < w["yl"] - tol or yh.max() > w["yh"] + tol:
        fail("inside", "a patch leaves the wall's bounding box")
    if (abs(xl.min() - w["xl"]) > tol or abs(xh.max() - w["xh"]) > tol
            or abs(yl.min() - w["yl"]) > tol or abs(yh.max() - w["yh"]) > tol):
        fail("bounding_box", "union of patches has box [%r,%r]x[%r,%r], wall has [%r,%r]x[%r,%r]" % (
            xl.min(), xh.max(), yl.min(), yh.max(), w["xl"], w["xh"], w["yl"], w["yh"]))
    # pairwise disjoint interiors
    ox = np.minimum(xh[:, None], xh[None, :]) - np.maximum(xl[:, None], xl[None, :])
    oy = np.minimum(yh[:, None], yh[None, :]) - np.maximum(yl[:, None], yl[None, :])
    ov = (ox > tol) & (oy > tol)
    np.fill_diagonal(ov, False)
    if ov.any():
        a, b = np.unravel_index(int(np.argmax(ov)), ov.shape)
        fail("disjoint", "patches %d and %d overlap" % (a, b))
    # cover: sampled wall points (and corners, centre) lie in some closed cell
    t = rng.random((48, 2))
    t = np.vstack([t, [[0, 0], [1, 0], [1, 1], [0, 1], [0.5, 0.5]]])
    px = w["xl"] + t[:, 0] * (w["xh"] - w["xl"])
    py = w["yl"] + t[:, 1] * (w["yh"] - w["yl"])
    inside = ((px[:, None] >= xl[None, :] - tol) & (px[:, None] <= xh[None, :] + tol)
              & (py[:, None] >= yl[None, :] - tol) & (py[:, None] <= yh[None, :] + tol))
    if not inside.any(axis=1).all():
        k = int(np.argmin(inside.any(axis=1)))
        fail("cover", "wall point (%r, %r) lies in no patch" % (float(px[k]), float(py[k])))
    # areas sum to the wall area
    wall_area = float(sx * sy)
    if abs(float(np.sum(areas)) - wall_area) > 1e-9 * wall_area:
        fail("area_sum", "patch areas sum to %r, wall area %r" % (float(np.sum(areas)), wall_area))
    return fails


def rect_set(P, f):
    xl, xh, yl, yh = rects(P, f)
    return set(zip(xl.tolist(), xh.tolist(), yl.tolist(), yh.tolist(), P[:, 0, f].tolist()))


def _case_body(spec, out):
    import sparrowpy as sp
    from sparrowpy import geometry as g
    from sparrowpy.classes.RadiosityKang import PatchesKang

    rng = np.random.default_rng([spec["seed"], spec["idx"]])
    idx = spec["idx"]
    mode = "dyadic" if idx % 2 == 0 else "general"
    f = (idx // 2) % 3
    w, p, r = draw_wall(rng, mode, f)
    ok = wall_ok(w, p)
    tag = dict(seed=spec["seed"], idx=idx, mode=mode, wall=w, patch_size=p)
    if ok is None:
        out["rejected"] = 1
        out["dist"]["rejected_near_integer"] = 1
        return out
    nx, ny, kinds = ok
    tag.update(nx=nx, ny=ny)
    out["sample"] = tag
    out["dist"]["mode_" + mode] = 1
    out["dist"]["plane_flat_axis_%d" % f] = 1
    out["dist"]["patches_%s" % ("1" if nx * ny == 1 else "2-9" if nx * ny < 10 else "10-99" if nx * ny < 100 else "100+")] = 1
    out["dist"]["max_per_direction_%s" % ("1-3" if max(nx, ny) <= 3 else "4-12" if max(nx, ny) <= 12 else "13+")] = 1
    if "exact_integer" in kinds:
        out["dist"]["exact_integer_ratio"] = 1

    def mismatch(stage, m):
        if m:
            out["mismatches"].append({"stage": stage, "what": m, "case": tag})

    def pfail(lst):
        for d in lst:
            d["case"] = tag
            out["prop_failures"].append(d)

    base = wall_pts(w)
    sign = 1.0 if rng.random() < 0.5 else -1.0

    # ---- additional walls for _process_patches / from_polygon (distinct planes / offsets)
    room = [dict(w)]
    for _ in range(int(rng.integers(1, 5))):
        for _try in range(10):
            w2, _, _ = draw_wall(rng, mode, int(rng.integers(0, 3)), p=p, r=r)
            if wall_ok(w2, p) is not None and all(
                    (w2["f"], w2["c"]) != (v["f"], v["c"]) for v in room):
                room.append(w2)
                break
    room_orders = [int(rng.integers(0, 8)) for _ in room]
    room_signs = [1.0 if rng.random() < 0.5 else -1.0 for _ in room]
    room_pts = np.array([reorder(wall_pts(v), o) for v, o in zip(room, room_orders)])
    room_normals = np.array([normal_of(v["f"], s) for v, s in zip(room, room_signs)])
    out["dist"]["walls_%d" % len(room)] = 1

    # translated copy
    if mode == "dyadic":
        tvec = np.array([int(k) / 8.0 for k in rng.integers(-80, 81, 3)])
    else:
        tvec = rng.uniform(-5, 5, 3)
    wt = dict(f=f, c=w["c"] + tvec[f], xl=w["xl"] + tvec[AXES[f][0]], xh=w["xh"] + tvec[AXES[f][0]],
              yl=w["yl"] + tvec[AXES[f][1]], yh=w["yh"] + tvec[AXES[f][1]])
    okt = wall_ok(wt, p)

    # ---- implementation (an exception on a valid wall is itself a failure of the property)
    try:
        impl_fast, impl_tot, impl_kang = [], [], []
        for o in range(8):
            pts = reorder(base, o)
            impl_fast.append(g._create_patches(pts.copy(), p))
            impl_tot.append(int(g._total_number_of_patches(pts.copy(), p)))
            pol = g.Polygon(pts.copy(), up_of(f), normal_of(f, sign))
            pk = PatchesKang(pol, p, [], 0)
            impl_kang.append(np.array([q.pts for q in pk.patches]).reshape(-1, 4, 3))
        pp, pnrm, pn_, pids = g._process_patches(room_pts.copy(), room_normals.copy(), p, len(room))
        polys = [g.Polygon(room_pts[k].copy(), up_of(room[k]["f"]), room_normals[k]) for k in range(len(room))]
        radi = sp.DirectionalRadiosityFast.from_polygon(polys, p)
        areas0 = g._calculate_area(impl_fast[0])
        centers0 = g._calculate_center(impl_fast[0])
    except Exception as exc:   # noqa: BLE001
        pfail([{"test": "raises", "what": "the implementation raised %s: %s on a valid wall" % (
            type(exc).__name__, exc)}])
        return out

    # ---- extracted model, one driver run
    tok = Tok()
    for o in range(8):
        pts = reorder(base, o)
        tok.cmd("q_tiling").vec(pts.reshape(-1)).f(p)
        tok.cmd("q_kang").vec(pts.reshape(-1)).f(p)
    tok.cmd("q_process").i(len(room)).vec(room_pts.reshape(-1)).vecs(room_normals).f(p)
    tok.cmd("q_patch_geom").i(impl_fast[0].shape[0]).vec(impl_fast[0].reshape(-1))
    res = run_driver(tok)
    mu = 0.0
    k = 0
    for o in range(8):
        meta = ints(res[k][1])
        mpts = floats(res[k + 1][1], (-1, 4, 3))
        kmeta = ints(res[k + 2][1])
        kpts = floats(res[k + 3][1], (-1, 4, 3))
        k += 4
        mismatch("tiling_defined(order %d)" % o, cmp_exact(1, meta[0], "defined"))
        mismatch("_total_number_of_patches(order %d)" % o, cmp_exact(impl_tot[o], meta[1], "total"))
        mismatch("len(_create_patches)(order %d)" % o, cmp_exact(impl_fast[o].shape[0], meta[2], "count"))
        m = cmp_float(impl_fast[o], mpts, what="_create_patches(order %d)" % o)
        mismatch("_create_patches", m)
        if not m:
            mu = max(mu, ulp_dist(impl_fast[o], mpts))
        mismatch("len(PatchesKang.patches)(order %d)" % o, cmp_exact(impl_kang[o].shape[0], kmeta[0], "count"))
        m = cmp_float(impl_kang[o], kpts, what="PatchesKang.patches(order %d)" % o)
        mismatch("PatchesKang.__init__", m)
        if not m:
            mu = max(mu, ulp_dist(impl_kang[o], kpts))
    pmeta = ints(res[k][1])
    mids = ints(res[k + 1][1])
    mpp = floats(res[k + 2][1], (-1, 4, 3))
    mnrm = floats(res[k + 3][1], (-1, 3))
    mcent = floats(res[k + 4][1], (-1, 3))
    marea = floats(res[k + 5][1])
    mismatch("_process_patches n_patches", cmp_exact(int(pn_), pmeta[0], "n_patches"))
    mismatch("_process_patches n_patches vs len", cmp_exact(int(pp.shape[0]), pmeta[1], "len"))
    mismatch("_process_patches patch_to_wall_ids", cmp_exact(np.asarray(pids, dtype=np.int64), mids, "ids"))
    mismatch("_process_patches patches_points", cmp_float(pp, mpp, what="points"))
    mismatch("_process_patches patches_normal", cmp_float(pnrm, mnrm, what="normals"))
    mismatch("from_polygon n_patches", cmp_exact(int(radi.n_patches), pmeta[0], "n_patches"))
    mismatch("from_polygon patches_points", cmp_float(radi.patches_points, mpp, what="points"))
    mismatch("from_polygon _patch_to_wall_ids",
             cmp_exact(np.asarray(radi._patch_to_wall_ids, dtype=np.int64), mids, "ids"))
    mismatch("from_polygon patches_normal", cmp_float(radi.patches_normal, mnrm, what="normals"))
    mismatch("_calculate_center", cmp_float(centers0, mcent, what="centers"))
    mismatch("_calculate_area", cmp_float(areas0, marea, what="areas"))
    out["max_ulp"] = mu
    out["traces"] = 8 * 2 + 3

    # ---- edge of the domain (correspondence only)
    if idx % 8 == 0:
        big = 10.0 * max(w["xh"] - w["xl"], w["yh"] - w["yl"])
        e_impl = g._create_patches(base.copy(), big)
        e_res = run_driver(Tok().cmd("q_tiling").vec(base.reshape(-1)).f(big))
        mismatch("patch size above both sides: count", cmp_exact(e_impl.shape[0], ints(e_res[0][1])[2], "count"))
        skew = base.copy()
        skew[:, f] += np.array([0.0, 1.0, 2.0, 1.0]) * max(w["xh"] - w["xl"], w["yh"] - w["yl"])
        try:
            g._create_patches(skew.copy(), p)
            raised = 0
        except UnboundLocalError:
            raised = 1
        e_res = run_driver(Tok().cmd("q_tiling").vec(skew.reshape(-1)).f(p))
        mismatch("no zero extent: raises <-> model undefined",
                 cmp_exact(1 - raised, ints(e_res[0][1])[0], "defined"))
        out["dist"]["edge_cases"] = 1

    # ---- the property statement on the implementation's output
    for o in range(8):
        Pf = impl_fast[o]
        ar = g._calculate_area(Pf) if o else areas0
        pfail(check_tiling(Pf, ar, w, nx, ny, rng, "fast engine, vertex order %d" % o))
        if impl_tot[o] != nx * ny:
            pfail([{"test": "count", "what": "_total_number_of_patches = %d, expected %d (order %d)" % (
                impl_tot[o], nx * ny, o)}])
        Pk = impl_kang[o]
        if Pk.shape != Pf.shape or not np.array_equal(Pk, Pf):
            pfail([{"test": "fast_eq_kang", "what": "fast and Kang tilings differ for vertex order %d" % o}])
            if Pk.shape[0]:
                pfail(check_tiling(Pk, g._calculate_area(Pk), w, nx, ny, rng, "Kang engine, vertex order %d" % o))
        if Pf.shape[0] and impl_fast[0].shape[0] and rect_set(Pf, f) != rect_set(impl_fast[0], f):
            pfail([{"test": "vertex_order", "what": "vertex order %d gives a different set of patch rectangles "
                    "than order 0" % o}])
        if Pk.shape[0] and impl_kang[0].shape[0] and rect_set(Pk, f) != rect_set(impl_kang[0], f):
            pfail([{"test": "vertex_order", "what": "Kang: vertex order %d gives a different set of patch "
                    "rectangles than order 0" % o}])
    # translation
    if okt is not None and okt[:2] == (nx, ny):
        Pt = g._create_patches(wall_pts(wt), p)
        ref = impl_fast[0] + (wall_pts(wt)[0] - base[0])[None, None, :]
        scale = max(1.0, float(np.abs(ref).max()))
        if Pt.shape != ref.shape or np.abs(Pt - ref).max() > 1e-9 * scale:
            pfail([{"test": "translation", "what": "tiling of the translated wall is not the translated tiling"}])
        elif mode == "dyadic" and nx in (1, 2, 4, 8) and ny in (1, 2, 4, 8) and not np.array_equal(Pt, ref):
            pfail([{"test": "translation", "what": "translated tiling differs although all quantities are "
                    "exactly representable"}])
        out["dist"]["translation_checked"] = 1
    # wall attribution and normals (from_polygon and _process_patches)
    counts = [wall_ok(v, p)[0] * wall_ok(v, p)[1] for v in room]
    want_ids = np.repeat(np.arange(len(room)), counts)
    for name, ids, pts_, nrm in (("_process_patches", np.asarray(pids), pp, pnrm),
                                 ("from_polygon", np.asarray(radi._patch_to_wall_ids), radi.patches_points,
                                  radi.patches_normal)):
        if ids.shape != want_ids.shape or not np.array_equal(ids, want_ids):
            pfail([{"test": "wall_ids", "what": "%s: patch_to_wall_ids are not the contiguous blocks of "
                    "floor*floor patches per wall" % name}])
            continue
        for wi, v in enumerate(room):
            sel = ids == wi
            Pw = pts_[sel]
            if Pw.shape[0] == 0:
                pfail([{"test": "attribution", "what": "%s: wall %d has no patch" % (name, wi)}])
                continue
            sc = max(1.0, abs(v["xl"]), abs(v["xh"]), abs(v["yl"]), abs(v["yh"]))
            xl, xh, yl, yh = rects(Pw, v["f"])
            if (not np.all(Pw[:, :, v["f"]] == v["c"]) or xl.min() < v["xl"] - 1e-9 * sc
                    or xh.max() > v["xh"] + 1e-9 * sc or yl.min() < v["yl"] - 1e-9 * sc
                    or yh.max() > v["yh"] + 1e-9 * sc):
                pfail([{"test": "attribution", "what": "%s: a patch attributed to wall %d does not lie on it"
                        % (name, wi)}])
            if not np.array_equal(nrm[sel], np.repeat(room_normals[wi][None, :], int(sel.sum()), axis=0)):
                pfail([{"test": "normal", "what": "%s: a patch of wall %d does not carry its normal" % (name, wi)}])
            if wi > 0:
                nxy = wall_ok(v, p)
                pfail(check_tiling(Pw, g._calculate_area(Pw), v, nxy[0], nxy[1], rng,
                                   "%s wall %d" % (name, wi)))
    if nx * ny >= 2 and len(room) >= 2:
        out["nontrivial"].append(case_hash(tag))
    return out


def case(spec):
    """one wall in 8 vertex orders + a wall list; an exception while evaluating the implementation's
    output (e.g. an empty or mis-shaped result) is reported as a failure, not as a crash"""
    out = {"evaluations": 1, "mismatches": [], "prop_failures": [], "dist": {}, "nontrivial": []}
    try:
        return _case_body(spec, out)
    except Exception as exc:   # noqa: BLE001
        import traceback
        out["prop_failures"].append({
            "test": "evaluation_raises", "case": dict(seed=spec["seed"], idx=spec["idx"]),
            "what": "evaluating the property on the implementation's output raised %s: %s | %s" % (
                type(exc).__name__, exc, traceback.format_exc(limit=3).replace("\n", " / "))})
        return out



def division_case(spec):
    """patch size given as a side divided by a whole number (p = side / k, the way a user asks for k patches):
    side / p sits on an integer in float arithmetic.  The exact-floor oracle is not applied here (the float
    quotient decides); the two engines, the count function and the model must still agree with each other."""
    from sparrowpy import geometry as g
    from sparrowpy.classes.RadiosityKang import PatchesKang
    rng = np.random.default_rng([spec["seed"], 70000 + spec["idx"]])
    out = {"evaluations": 1, "mismatches": [], "prop_failures": [], "dist": {"division_case": 1}, "nontrivial": []}
    f = int(rng.integers(0, 3))
    sx = float(np.round(rng.uniform(0.3, 6.5), int(rng.integers(1, 3))))
    sy = float(np.round(rng.uniform(0.3, 6.5), int(rng.integers(1, 3))))
    k = int(rng.integers(1, 13))
    p = (sx if rng.random() < 0.5 else sy) / k
    if p > min(sx, sy):
        p = min(sx, sy) / k
    off = [float(np.round(x, 2)) for x in rng.uniform(-10, 10, 3)] if rng.random() < 0.5 else [0.0, 0.0, 0.0]
    w = dict(f=f, c=off[0], xl=off[1], xh=off[1] + sx, yl=off[2], yh=off[2] + sy)
    tag = dict(seed=spec["seed"], idx=spec["idx"], division=True, wall=w, patch_size=p, k=k)
    out["sample"] = tag
    base = wall_pts(w)
    o = int(rng.integers(0, 8))
    pts = reorder(base, o)
    try:
        fast = g._create_patches(pts.copy(), p)
        tot = int(g._total_number_of_patches(pts.copy(), p))
        pk = PatchesKang(g.Polygon(pts.copy(), up_of(f), normal_of(f, 1.0)), p, [], 0)
        kang = np.array([q.pts for q in pk.patches]).reshape(-1, 4, 3)
    except Exception as exc:   # noqa: BLE001
        out["prop_failures"].append(dict(test="raises", case=tag, what="the implementation raised %s: %s on a valid wall"
                                         % (type(exc).__name__, exc)))
        return out
    res = run_driver(Tok().cmd("q_tiling").vec(pts.reshape(-1)).f(p).cmd("q_kang").vec(pts.reshape(-1)).f(p))
    meta = ints(res[0][1]); mpts = floats(res[1][1], (-1, 4, 3))
    kmeta = ints(res[2][1])
    for stage, m in (("_total_number_of_patches (p = side/k)", cmp_exact(tot, meta[1], "total")),
                     ("len(_create_patches) (p = side/k)", cmp_exact(fast.shape[0], meta[2], "count")),
                     ("len(PatchesKang.patches) (p = side/k)", cmp_exact(kang.shape[0], kmeta[0], "count"))):
        if m:
            out["mismatches"].append(dict(stage=stage, what=m, case=tag))
    if fast.shape[0] == meta[2]:
        m = cmp_float(fast, mpts, what="_create_patches (p = side/k)")
        if m:
            out["mismatches"].append(dict(stage="_create_patches (p = side/k)", what=m, case=tag))
    if fast.shape[0] != kang.shape[0] or tot != fast.shape[0]:
        out["prop_failures"].append(dict(
            test="fast_eq_kang_division", case=tag,
            what="wall %.6g x %.6g with patch size side/%d = %r: the fast engine makes %d patches (count function: %d), "
                 "the Kang engine %d" % (sx, sy, k, p, fast.shape[0], tot, kang.shape[0])))
    else:
        ca = np.sort(np.round(fast.reshape(-1, 12), 9), axis=0)
        cb = np.sort(np.round(kang.reshape(-1, 12), 9), axis=0)
        a_cent = np.sort(np.round(fast.mean(axis=1), 9), axis=0)
        b_cent = np.sort(np.round(kang.mean(axis=1), 9), axis=0)
        if not np.allclose(a_cent, b_cent, rtol=0, atol=1e-8):
            out["prop_failures"].append(dict(test="fast_eq_kang_division", case=tag,
                                             what="same patch count but different patch centres in the two engines"))
    if fast.shape[0] >= 2:
        out["nontrivial"].append(case_hash(tag))
    return out


def run(res):
    n = 96 if res.tier == "quick" else 1920
    for r in fw.run_parallel(case, [dict(seed=res.seed, idx=i) for i in range(n)]):
        res.absorb(r)
    for r in fw.run_parallel(division_case, [dict(seed=res.seed, idx=i) for i in range(60 if res.tier == "quick" else 1500)]):
        res.absorb(r)
    res.rule = ("one case = an axis-aligned rectangle (3 coordinate planes in turn, random offset) in all 8 vertex "
                "orders (4 rotations x 2 directions) with a patch size between side and side/12, plus a list of "
                "2-5 walls in mixed planes for _process_patches/from_polygon and a translated copy; even cases use "
                "sides/offsets/patch sizes with short binary expansions and power-of-two counts (all results exact), "
                "odd cases are uniform floats; side/p within 1e-6 of an integer is rejected unless the ratio is an "
                "exactly computed integer; non-trivial = at least 2 patches and at least 2 walls; distinct by input hash")
    res.not_carried = NOT_CARRIED
    res.assumptions = ["np.min/np.max over the four vertices are modelled as pairwise comparisons (exact in floats)",
                       "Polygon() of the Kang patches is observed through its .pts only"]


def replay(res, payload):
    seen = set()
    for fl in payload.get("failures", []) + payload.get("correspondence", []):
        c = fl.get("case", {})
        key = (c.get("seed"), c.get("idx"), bool(c.get("division")))
        if key in seen or c.get("idx") is None:
            continue
        seen.add(key)
        if c.get("division"):
            res.absorb(fw.run_parallel(division_case, [dict(seed=c["seed"], idx=c["idx"])])[0])
            continue
        res.absorb(case(dict(seed=c["seed"], idx=c["idx"])))
