"""C19 -- Kang engine: exact order recursion, placement invariance, direct-sound law."""
import numpy as np

from common import Tok, run_driver, floats, ints, cmp_float, cmp_exact, case_hash, ulp_dist
import framework as fw

import sparrowpy as sp
from sparrowpy.classes.RadiosityKang import PatchesKang, RadiosityKang

NOT_CARRIED = [
    "cyclic axis permutation: C19_cyclic proves the invariance of form factors, order-0 energies, every "
    "order and the response for the MODEL, where the patch order of each wall is data and the permuted "
    "scene keeps that order; PatchesKang itself enumerates the patches of some walls in transposed order "
    "after the permutation, so the implementation's E_matrix is invariant only up to that relabelling of "
    "patches (the test matches patches by centre; the tiling is the subject of C08); the receiver "
    "response is invariant as stated",
    "C19_cyclic assumes an axis-aligned scene (exactly one normal component above the thresholds, "
    "orthogonal walls with different normal axes, centres of parallel walls differing along one axis) -- "
    "true of every shoebox wall subset; other geometries hit the AssertionError branches of the code",
    "float rounding: theorems hold in every commutative (ordered) ring instance of Ops; 'up to rounding' is "
    "the 1e-9 relative tolerance of the tests",
]

ASSUMPTIONS = [
    "patch centres / sizes (PatchesKang.__init__ tiling, Polygon.center/.size) enter the model as data read "
    "from the implementation's patches (the tiling is the subject of C08)",
    "walls are axis-aligned (shoebox): the AssertionError / NameError branches of init_energy_exchange and "
    "calculate_form_factor are outside the model (model value 0)",
    "other_wall_ids of every wall lists every other wall exactly once (any order)",
    "np.linalg.norm / np.dot are evaluated as sqrt((x*x+y*y)+z*z) in the model (<= 2 ulp apart); cases with "
    "a delay argument within 1e-7 of an integer are rejected and counted",
]


def cyc(v):
    """x -> y -> z -> x: the old x coordinate becomes the new y coordinate."""
    v = np.asarray(v, dtype=float)
    return np.stack([v[..., 2], v[..., 0], v[..., 1]], axis=-1)


# --------------------------------------------------------------------------
# configuration
# --------------------------------------------------------------------------
PATCH_COMBOS_24 = [(1, 1, 1), (2, 1, 1), (1, 2, 1), (1, 1, 2), (2, 2, 1), (2, 1, 2), (1, 2, 2), (2, 2, 2),
                   (3, 1, 1), (1, 3, 1), (1, 1, 3), (3, 2, 1), (1, 3, 2), (2, 1, 3), (3, 1, 2)]
PATCH_COMBOS_BIG = PATCH_COMBOS_24 + [(3, 3, 1), (3, 2, 2), (2, 3, 3), (3, 3, 3), (1, 3, 3), (3, 3, 2)]


def draw_cfg(rng, quick=True, force=None):
    force = force or {}
    dyadic = bool(rng.random() < 0.4)
    combos = PATCH_COMBOS_24 if quick else PATCH_COMBOS_BIG
    n = combos[int(rng.integers(len(combos)))]
    if dyadic:
        ps = float(rng.choice([0.5, 0.75, 1.0, 1.25]))
        dims = [n[i] * ps for i in range(3)]
    else:
        ps = float(np.round(rng.uniform(0.45, 1.3), 3))
        dims = [float(np.round((n[i] + rng.uniform(0.06, 0.9)) * ps, 4)) for i in range(3)]
    nwalls = int(rng.choice([2, 3, 4, 5, 6, 6, 6]))
    subset = sorted(rng.choice(6, size=nwalls, replace=False).tolist())
    if rng.random() < 0.4:
        subset = rng.permutation(subset).tolist()
    nb = int(rng.integers(1, 3))
    alpha = np.round(rng.uniform(0.02, 0.95, (nwalls, nb)), 3)
    for w in range(nwalls):
        u = rng.random()
        if u < 0.12:
            alpha[w, :] = 1.0
        elif u < 0.24:
            alpha[w, :] = 0.0
        elif u < 0.3:
            alpha[w, 0] = 1.0
    # walls given with INTEGER absorption values (rigid 0 / fully absorbing 1), as a user would type them
    int_alpha = bool(rng.random() < 0.2) or bool(force.get("int_alpha"))
    if int_alpha:
        alpha = rng.integers(0, 2, (nwalls, nb)).astype(float)
        alpha[0, :] = 0.0
    scat = np.ones((nwalls, nb))
    if rng.random() < 0.3:
        scat = np.round(rng.uniform(0.1, 1.0, (nwalls, nb)), 3)
    att = np.zeros(nb) if rng.random() < 0.3 else np.round(rng.uniform(0.0, 0.2, nb), 4)
    if force.get("att_pos"):
        att = np.round(rng.uniform(0.02, 0.2, nb), 4)
    others = []
    for w in range(nwalls):
        o = [j for j in range(nwalls) if j != w]
        if rng.random() < 0.5:
            o = rng.permutation(o).tolist()
        others.append([int(x) for x in o])
    K = int(rng.integers(1, 4))
    c = 343.0 if rng.random() < 0.5 else float(np.round(rng.uniform(300.0, 360.0), 2))
    fs = int(rng.choice([1000, 1000, 500, 2000, 1500]))
    margin = 0.15
    src = [float(rng.uniform(margin, d - margin)) for d in dims]
    rcv = [float(rng.uniform(margin, d - margin)) for d in dims]
    power = 1.0 if rng.random() < 0.5 else float(np.round(rng.uniform(0.2, 5.0), 3))
    diag = float(np.linalg.norm(dims))
    n_full = int((K + 2) * diag / c * fs) + 3
    d_src = float(np.linalg.norm(np.array(src) - np.array(rcv)))
    n_first = max(1, int(min(dims) * 0.15 / c * fs))
    u = rng.random()
    if u < 0.45:
        kind, N = "long", n_full
    elif u < 0.8:
        kind, N = "short", int(rng.integers(max(2, int(d_src / c * fs) + 1), max(3, n_full // 2 + 2)))
    else:
        kind, N = "tiny", int(rng.integers(1, n_first + 2))
    if quick:
        N = min(N, 60)
    if dyadic:
        tr = (rng.integers(-40, 41, 3) / 8.0).tolist()
    else:
        tr = np.round(rng.uniform(-12.0, 12.0, 3), 3).tolist()
    return dict(int_alpha=int_alpha, dyadic=dyadic, n=list(n), ps=ps, dims=dims, subset=[int(s) for s in subset], nb=nb,
                alpha=alpha.tolist(), scat=scat.tolist(), att=att.tolist(), others=others, K=K, c=c, fs=fs,
                src=src, rcv=rcv, power=power, N=int(N), kind=kind, tr=[float(t) for t in tr])


def build(cfg, N=None, tr=None, perm=0, K=None):
    """RadiosityKang object, source and receiver for a configuration; optional translation of the
    whole scene and [perm] applications of the cyclic axis permutation."""
    stub = sp.testing.shoebox_room_stub(*cfg["dims"])
    t = np.zeros(3) if tr is None else np.asarray(tr, dtype=float)
    walls = []
    for wid, sidx in enumerate(cfg["subset"]):
        w = stub[sidx]
        pts = np.array(w.pts, dtype=float) + t
        up = np.array(w.up_vector, dtype=float)
        nrm = np.array(w.normal, dtype=float)
        for _ in range(perm):
            pts, up, nrm = cyc(pts), cyc(up), cyc(nrm)
        poly = sp.geometry.Polygon(pts, up, nrm)
        walls.append(PatchesKang(
            poly, cfg["ps"], cfg["others"][wid], wid,
            scattering=np.array(cfg["scat"][wid], dtype=float),
            absorption=np.array(cfg["alpha"][wid], dtype=(int if cfg.get("int_alpha") else float)),
            sound_attenuation_factor=np.array(cfg["att"], dtype=float)))
    s = np.array(cfg["src"], dtype=float) + t
    r = np.array(cfg["rcv"], dtype=float) + t
    for _ in range(perm):
        s, r = cyc(s), cyc(r)
    N = cfg["N"] if N is None else N
    K = cfg["K"] if K is None else K
    radi = RadiosityKang(walls, cfg["ps"], K, (N + 0.5) / cfg["fs"],
                         speed_of_sound=cfg["c"], sampling_rate=cfg["fs"])
    source = sp.geometry.SoundSource(s, [0, 1, 0], [0, 0, 1], sound_power=cfg["power"])
    receiver = sp.geometry.Receiver(r, [0, 1, 0], [0, 0, 1])
    return radi, source, receiver


def centres(radi):
    return [np.array([q.center for q in p.patches]) for p in radi.patch_list]


def delay_args(radi, source, receiver):
    """every argument of an int() delay computation of the engine"""
    cs = centres(radi)
    c, fs = radi.speed_of_sound, radi.sampling_rate
    out = []
    allc = np.concatenate(cs, axis=0)
    for i in range(len(cs)):
        for j in range(len(cs)):
            if i != j:
                D = np.sqrt(((cs[i][:, None, :] - cs[j][None, :, :]) ** 2).sum(-1))
                out.append(D.reshape(-1) / c * fs)
    out.append(np.sqrt(((allc - source.position) ** 2).sum(-1)) / c * fs)
    out.append(np.sqrt(((allc - receiver.position) ** 2).sum(-1)) / c * fs)
    out.append(np.array([np.sqrt(((receiver.position - source.position) ** 2).sum()) / c * fs]))
    return np.concatenate(out)


def near_int(x, eps=1e-7):
    x = np.asarray(x, dtype=float)
    return bool(np.any(np.abs(x - np.round(x)) < eps))


def degenerate(radi, source, receiver):
    """source aligned with a patch centre along an in-plane axis (sign decisions of
    _init_energy_exchange), or source/receiver closer than 1 mm to a wall plane / patch centre"""
    allc = np.concatenate(centres(radi), axis=0)
    if np.any(np.abs(allc - source.position) < 1e-6):
        return True
    if np.any(np.sqrt(((allc - receiver.position) ** 2).sum(-1)) < 1e-3):
        return True
    return False


# --------------------------------------------------------------------------
# model session
# --------------------------------------------------------------------------
def scene_tokens(radi, source, ir_length_s=None):
    tok = Tok().cmd("kang_scene").i(len(radi.patch_list))
    for p in radi.patch_list:
        tok.vecs([q.center for q in p.patches])
        tok.vecs([q.size for q in p.patches])
        tok.vec(p.normal).vec(p.center).f(p.max_size)
        tok.arr(np.asarray(p.other_wall_ids), "i")
        tok.arr(p.scattering).arr(p.absorption).arr(p.sound_attenuation_factor)
    nb = radi.patch_list[0].n_bins
    tok.i(nb).f(radi.speed_of_sound).f(radi.sampling_rate)
    tok.f(radi.ir_length_s if ir_length_s is None else ir_length_s)
    tok.vec(source.position).f(source.sound_power)
    return tok


def impl_E(radi):
    """[k][w] -> array (nb, npatch, N)"""
    K = radi.max_order_k
    return [[p.E_matrix[:, k, :, :] for p in radi.patch_list] for k in range(K + 1)]


def parse_E(tokens, radi, K, N):
    nb = radi.patch_list[0].n_bins
    a = floats(tokens)
    out = []
    pos = 0
    for k in range(K + 1):
        row = []
        for p in radi.patch_list:
            n = nb * len(p.patches) * N
            row.append(a[pos:pos + n].reshape(nb, len(p.patches), N))
            pos += n
        out.append(row)
    assert pos == a.size, (pos, a.size)
    return out


def column_of(radi, w_src, w_rcv, r):
    """column of (receiver wall, receiver patch) in the form-factor matrix of wall w_src, from the
    documented layout: blocks of the other walls in the order of w_src's other_wall_ids"""
    col = 0
    for o in list(radi.patch_list[w_src].other_wall_ids):
        if int(o) == w_rcv:
            return col + r
        col += len(radi.patch_list[int(o)].patches)
    raise KeyError


def zshift(h, d):
    out = np.zeros_like(h)
    n = h.shape[-1]
    if d < n:
        out[..., d:] = h[..., :n - d]
    return out


def recompute_next(radi, Ek, ffs=None):
    """order k+1 of every wall from order k by the stated formula (independent of the engine's loops)"""
    cs = centres(radi)
    c, fs = radi.speed_of_sound, radi.sampling_rate
    nw = len(radi.patch_list)
    nb = radi.patch_list[0].n_bins
    out = []
    for w in range(nw):
        pw = radi.patch_list[w]
        N = Ek[w].shape[-1]
        nxt = np.zeros((nb, len(pw.patches), N))
        for r in range(len(pw.patches)):
            for w2 in range(nw):
                if w2 == w:
                    continue
                p2 = radi.patch_list[w2]
                F = p2.form_factors if ffs is None else ffs[w2]
                for s in range(len(p2.patches)):
                    d = float(np.sqrt(((cs[w][r] - cs[w2][s]) ** 2).sum()))
                    dl = int(d / c * fs)
                    ff = F[s, column_of(radi, w2, w, r)]
                    for b in range(nb):
                        nxt[b, r] += (ff * pw.scattering[b] * (1 - pw.absorption[b])
                                      * np.exp(-pw.sound_attenuation_factor[b] * d)) * zshift(Ek[w2][b, s], dl)
        out.append(nxt)
    return out


def close(a, b, rtol=1e-9):
    a = np.asarray(a, dtype=float)
    b = np.asarray(b, dtype=float)
    if a.shape != b.shape:
        return False
    return bool(np.all(np.abs(a - b) <= rtol * np.maximum(np.abs(a), np.abs(b)) + 1e-300))


def first_diff(a, b, rtol=1e-9):
    a = np.asarray(a, dtype=float)
    b = np.asarray(b, dtype=float)
    if a.shape != b.shape:
        return "shape %s vs %s" % (a.shape, b.shape)
    bad = np.abs(a - b) > rtol * np.maximum(np.abs(a), np.abs(b)) + 1e-300
    idx = np.unravel_index(int(np.argmax(bad)), a.shape)
    return "at %s: %r vs %r (%d of %d differ)" % (tuple(int(i) for i in idx), float(a[idx]), float(b[idx]),
                                                   int(bad.sum()), a.size)


# --------------------------------------------------------------------------
# scene case
# --------------------------------------------------------------------------
def _scene_case(spec):
    rng = np.random.default_rng([spec["seed"], spec["idx"]])
    out = {"evaluations": 1, "mismatches": [], "prop_failures": [], "dist": {}, "nontrivial": []}
    quick = spec.get("quick", True)
    cfg = draw_cfg(rng, quick, spec.get("force"))
    tag = dict(cfg, engine="kang", seed=spec["seed"], idx=spec["idx"], quick=quick, kernel=False, force=spec.get("force"))
    out["sample"] = tag
    K, N, nb = cfg["K"], cfg["N"], cfg["nb"]
    radi, source, receiver = build(cfg)
    radi_t, source_t, receiver_t = build(cfg, tr=cfg["tr"])
    radi_p, source_p, receiver_p = build(cfg, perm=1)
    for (ra, so, re) in ((radi, source, receiver), (radi_t, source_t, receiver_t), (radi_p, source_p, receiver_p)):
        if near_int(delay_args(ra, so, re)) or degenerate(ra, so, re):
            out["rejected"] = 1
            return out
    npt = sum(len(p.patches) for p in radi.patch_list)
    out["dist"]["walls_%d" % len(cfg["subset"])] = 1
    out["dist"]["patches_%02d" % (5 * (npt // 5))] = 1
    out["dist"]["bands_%d" % nb] = 1
    out["dist"]["order_%d" % K] = 1
    out["dist"]["hist_" + cfg["kind"]] = 1
    out["dist"]["att_zero" if not any(cfg["att"]) else "att_pos"] = 1
    out["dist"]["dyadic" if cfg["dyadic"] else "generic"] = 1
    if any(all(a == 1.0 for a in row) for row in cfg["alpha"]):
        out["dist"]["has_alpha_1_wall"] = 1
    if any(all(a == 0.0 for a in row) for row in cfg["alpha"]):
        out["dist"]["has_alpha_0_wall"] = 1
    if any(o != sorted(o) for o in cfg["others"]):
        out["dist"]["permuted_other_wall_ids"] = 1

    def fail(test, what, **kw):
        out["prop_failures"].append(dict(test=test, what=what, case=tag, **kw))

    def mism(stage, what):
        if what:
            out["mismatches"].append(dict(stage=stage, what=what, case=tag))

    # the materials in force are the ones that were given (exact 0 and 1 included, integer or float)
    for w, p in enumerate(radi.patch_list):
        given = np.asarray(cfg["alpha"][w], dtype=float)
        if np.asarray(p.absorption, dtype=float).shape != given.shape or np.any(np.asarray(p.absorption, dtype=float) != given):
            fail("given_absorption", "wall %d was given the absorption %r but the object simulates %r"
                 % (w, given.tolist(), np.asarray(p.absorption).tolist()), wall=w)
            break
        gs = np.asarray(cfg["scat"][w], dtype=float)
        if np.any(np.asarray(p.scattering, dtype=float) != gs):
            fail("given_absorption", "wall %d was given the scattering %r but the object simulates %r"
                 % (w, gs.tolist(), np.asarray(p.scattering).tolist()), wall=w)
            break
    if np.any(np.asarray(radi.patch_list[0].sound_attenuation_factor, dtype=float) != np.asarray(cfg["att"], dtype=float)):
        fail("given_absorption", "the air attenuation %r was given but the object simulates %r"
             % (cfg["att"], np.asarray(radi.patch_list[0].sound_attenuation_factor).tolist()))
    # ---- implementation
    radi.run(source)
    E = impl_E(radi)
    Nimpl = radi.patch_list[0].E_matrix.shape[-1]
    resp = {}
    for k in range(K + 1):
        for ign in (True, False):
            resp[(k, ign)] = np.array(radi.energy_at_receiver(receiver, max_order_k=k, ignore_direct=ign))

    # ---- correspondence with the extracted model
    tok = scene_tokens(radi, source)
    tok.cmd("q_kang_N").cmd("q_kang_ff").cmd("q_kang_init").cmd("q_kang_run").i(K)
    for k in range(K + 1):
        for ign in (True, False):
            tok.cmd("q_kang_resp").i(k).b(ign).vec(receiver.position)
    res = run_driver(tok)
    mism("E_n_samples", cmp_exact(np.array([Nimpl]), ints(res[0][1]), what="N"))
    mu = 0.0
    if len(radi.patch_list) > 1:
        ff_impl = np.concatenate([p.form_factors.reshape(-1) for p in radi.patch_list])
        ff_mod = floats(res[1][1])
        m = cmp_float(ff_impl, ff_mod, what="form_factors")
        mism("calculate_form_factor", m)
        if not m:
            mu = max(mu, ulp_dist(ff_impl, ff_mod))
    ini = res[2][1]
    pos = 0
    d0_mod, e0_mod, d0_impl, e0_impl = [], [], [], []
    for w, p in enumerate(radi.patch_list):
        for r, q in enumerate(p.patches):
            d0_mod.append(int(ini[pos])); pos += 1
            e0_mod.append([float.fromhex(x) for x in ini[pos:pos + nb]]); pos += nb
            dist = float(np.linalg.norm(q.center - source.position))
            dd = int(dist / radi.speed_of_sound * radi.sampling_rate)
            d0_impl.append(dd)
            e0_impl.append(p.E_matrix[:, 0, r, dd] if dd < Nimpl else None)
    mism("init delay", cmp_exact(np.array(d0_impl), np.array(d0_mod), what="source->patch bin"))
    sel = [i for i, e in enumerate(e0_impl) if e is not None]
    if sel:
        mism("_init_energy_exchange", cmp_float(np.array([e0_impl[i] for i in sel]),
                                                np.array([e0_mod[i] for i in sel]), what="order-0 energy"))
    Emod = parse_E(res[3][1], radi, K, Nimpl)
    for k in range(K + 1):
        for w in range(len(radi.patch_list)):
            m = cmp_float(E[k][w], Emod[k][w], what="E_matrix order %d wall %d" % (k, w))
            mism("calculate_energy_exchange", m)
            if not m:
                mu = max(mu, ulp_dist(E[k][w], Emod[k][w]))
    i = 4
    for k in range(K + 1):
        for ign in (True, False):
            rm = floats(res[i][1], (nb, Nimpl)); i += 1
            m = cmp_float(resp[(k, ign)], rm, what="response K=%d ignore_direct=%s" % (k, ign))
            mism("energy_at_receiver", m)
            if not m:
                mu = max(mu, ulp_dist(resp[(k, ign)], rm))
    out["max_ulp"] = mu
    out["traces"] = 1

    # ---- property statement on the implementation
    # (1) order k+1 from order k by the stated formula
    for k in range(K):
        nxt = recompute_next(radi, E[k])
        for w in range(len(radi.patch_list)):
            if not close(E[k + 1][w], nxt[w]):
                fail("recursion", "order-%d energy of wall %d is not the delayed, form-factor / (1-alpha) / "
                     "exp(-m d) weighted sum of the order-%d energy of the other walls: %s"
                     % (k + 1, w, k, first_diff(E[k + 1][w], nxt[w])), order=k + 1, wall=w)
                break
    # a wall with absorption 1 holds no energy at any order, a wall with absorption 0 loses none
    for w, p in enumerate(radi.patch_list):
        for b in range(nb):
            if p.absorption[b] == 1.0 and np.any(p.E_matrix[b] != 0):
                fail("absorbing", "wall %d has absorption 1 in band %d but carries energy" % (w, b), wall=w)
    # (2) no energy before the delay, nothing wraps: a shorter histogram is the prefix of a longer one
    Nl = Nimpl + int(rng.integers(5, 40))
    radi_l, source_l, receiver_l = build(cfg, N=Nl)
    radi_l.run(source_l)
    for w in range(len(radi.patch_list)):
        a = radi.patch_list[w].E_matrix
        bl = radi_l.patch_list[w].E_matrix[..., :Nimpl]
        if not np.array_equal(a, bl):
            fail("prefix", "E_matrix of wall %d with %d bins is not the prefix of the run with %d bins: %s"
                 % (w, Nimpl, Nl, first_diff(a, bl, 0.0)), wall=w, n_short=Nimpl, n_long=Nl)
            break
    for k in (0, K):
        for ign in (True, False):
            rl = np.array(radi_l.energy_at_receiver(receiver_l, max_order_k=k, ignore_direct=ign))[:, :Nimpl]
            if not np.array_equal(resp[(k, ign)], rl):
                fail("prefix", "receiver response (K=%d, ignore_direct=%s) with %d bins is not the prefix of "
                     "the run with %d bins: %s" % (k, ign, Nimpl, Nl, first_diff(resp[(k, ign)], rl, 0.0)),
                     n_short=Nimpl, n_long=Nl)
    # first arrival: nothing before the earliest possible bin
    cs = centres(radi)
    c, fs = radi.speed_of_sound, radi.sampling_rate
    for w, p in enumerate(radi.patch_list):
        for r in range(len(p.patches)):
            d0 = int(float(np.sqrt(((cs[w][r] - source.position) ** 2).sum())) / c * fs)
            if np.any(p.E_matrix[:, 0, r, :min(d0, Nimpl)] != 0):
                fail("early", "wall %d patch %d holds order-0 energy before the source->patch bin %d" % (w, r, d0),
                     wall=w, patch=r)
    # receiver leg: the response without direct sound carries energy exactly in the bins
    # (bin of the patch history) + int(|patch - receiver| / c * fs), c and fs being the simulation's own
    for k in (0, K):
        expect = np.zeros((nb, Nimpl), dtype=bool)
        for w, p in enumerate(radi.patch_list):
            for r in range(len(p.patches)):
                dvec = np.asarray(receiver.position, dtype=float) - cs[w][r]
                R = float(np.sqrt((dvec ** 2).sum()))
                if abs(float(np.dot(p.patches[r].normal, np.abs(dvec)))) == 0.0:
                    continue
                dl = int(R / c * fs)
                occ = np.any(p.E_matrix[:, :k + 1, r, :] != 0, axis=1)
                if dl < Nimpl:
                    expect[:, dl:] |= occ[:, :Nimpl - dl]
        got = resp[(k, True)] != 0
        if not np.array_equal(got, expect):
            b, t = [int(x[0]) for x in np.nonzero(got != expect)]
            fail("receiver_leg", "response (max order %d, no direct sound), band %d bin %d: %s, but the patch "
                 "histories delayed by int(distance / c * fs) with c = %g, fs = %g %s energy there"
                 % (k, b, t, "energy" if got[b, t] else "no energy", c, fs,
                    "put" if expect[b, t] else "put no"), order=k, band=b, bin=t)
            break
    # (3) monotone in the maximum order
    for ign in (True, False):
        for k in range(K):
            lo, hi = resp[(k, ign)], resp[(k + 1, ign)]
            if np.any(hi < lo - 1e-12 * np.abs(lo)):
                fail("monotone", "response for max order %d is below the response for max order %d: %s"
                     % (k + 1, k, first_diff(hi, np.maximum(hi, lo), 1e-12)), order=k)
    # (4) direct sound: exactly one bin, exactly the free-field value
    rr = float(np.sqrt(((receiver.position - source.position) ** 2).sum()))
    dbin = int(rr / c * fs)
    m_att = np.asarray(cfg["att"], dtype=float)
    val = 1.0 / (4 * np.pi * rr * rr) * np.exp(-m_att * rr)
    for k in (0, K):
        wi, wo = resp[(k, False)], resp[(k, True)]
        expect = wo.copy()
        if dbin < Nimpl:
            expect[:, dbin] = wo[:, dbin] + val
            out["dist"]["direct_inside"] = out["dist"].get("direct_inside", 0) + (1 if k == 0 else 0)
        else:
            out["dist"]["direct_dropped"] = out["dist"].get("direct_dropped", 0) + (1 if k == 0 else 0)
        other = np.ones(Nimpl, dtype=bool)
        if dbin < Nimpl:
            other[dbin] = False
        if not np.array_equal(wi[:, other], wo[:, other]):
            fail("direct", "the direct sound changes bins other than bin %d (K=%d)" % (dbin, k), bin=dbin)
        elif dbin < Nimpl:
            diff = wi[:, dbin] - wo[:, dbin]
            tol = 1e-9 * val + 4 * np.spacing(np.abs(wi[:, dbin]))
            if np.any(np.abs(diff - val) > tol):
                fail("direct", "direct sound adds %r in bin %d, expected 1/(4 pi r^2) exp(-m r) = %r (K=%d)"
                     % (diff.tolist(), dbin, val.tolist(), k), bin=dbin)
    # (5) translation of the whole scene
    radi_t.run(source_t)
    for w in range(len(radi.patch_list)):
        if not close(radi.patch_list[w].E_matrix, radi_t.patch_list[w].E_matrix):
            fail("translate", "E_matrix of wall %d changes under translation by %s: %s"
                 % (w, cfg["tr"], first_diff(radi.patch_list[w].E_matrix, radi_t.patch_list[w].E_matrix)), wall=w)
            break
    for ign in (True, False):
        rt = np.array(radi_t.energy_at_receiver(receiver_t, max_order_k=K, ignore_direct=ign))
        if not close(resp[(K, ign)], rt):
            fail("translate", "receiver response (ignore_direct=%s) changes under translation by %s: %s"
                 % (ign, cfg["tr"], first_diff(resp[(K, ign)], rt)))
    # (6) cyclic permutation of the coordinate axes
    radi_p.run(source_p)
    cp = centres(radi_p)
    for w in range(len(radi.patch_list)):
        a = radi.patch_list[w].E_matrix
        bp = radi_p.patch_list[w].E_matrix
        if a.shape != bp.shape:
            fail("cyclic", "wall %d has %s entries, %s after the axis permutation" % (w, a.shape, bp.shape), wall=w)
            break
        # match patches by centre
        target = cyc(cs[w])
        D = np.abs(cp[w][None, :, :] - target[:, None, :]).max(-1)
        match = D.argmin(1)
        if sorted(match.tolist()) != list(range(len(match))) or D.min(1).max() > 1e-9:
            fail("cyclic", "patch centres of wall %d are not the permuted centres" % w, wall=w)
            break
        if not np.array_equal(match, np.arange(len(match))):
            out["dist"]["cyclic_patch_order_transposed"] = 1
        if not close(a, bp[:, :, match, :]):
            fail("cyclic", "E_matrix of wall %d changes under x->y->z->x: %s"
                 % (w, first_diff(a, bp[:, :, match, :])), wall=w)
            break
    for ign in (True, False):
        rp = np.array(radi_p.energy_at_receiver(receiver_p, max_order_k=K, ignore_direct=ign))
        if not close(resp[(K, ign)], rp):
            fail("cyclic", "receiver response (ignore_direct=%s) changes under x->y->z->x: %s"
                 % (ign, first_diff(resp[(K, ign)], rp)))

    e_last = sum(float(E[K][w].sum()) for w in range(len(radi.patch_list)))
    if len(cfg["subset"]) >= 2 and e_last > 0:
        out["nontrivial"].append(case_hash(tag))
    return out


# --------------------------------------------------------------------------
# kernel case: synthetic, asymmetric form-factor matrices and order-0 histograms
# --------------------------------------------------------------------------
def _kernel_case(spec):
    rng = np.random.default_rng([spec["seed"], 9000 + spec["idx"]])
    out = {"evaluations": 1, "mismatches": [], "prop_failures": [], "dist": {"kernel_synthetic": 1},
           "nontrivial": []}
    cfg = draw_cfg(rng, True)
    nwalls = len(cfg["subset"])
    nb = cfg["nb"]
    att_w = np.round(rng.uniform(0.0, 0.3, (nwalls, nb)), 4)      # per-wall attenuation
    K = int(rng.integers(1, 4))
    N = int(rng.integers(3, 50))
    tag = dict(cfg, engine="kang", seed=spec["seed"], idx=spec["idx"], kernel=True, K=K, N=N)
    out["sample"] = dict(kernel=True, seed=spec["seed"], idx=spec["idx"], K=K, N=N, walls=nwalls)
    radi, source, receiver = build(cfg, N=N, K=K)
    if near_int(delay_args(radi, source, receiver)):
        out["rejected"] = 1
        return out
    c, fs = radi.speed_of_sound, radi.sampling_rate
    ffs, e0s, d0s = [], [], []
    for w, p in enumerate(radi.patch_list):
        p.sound_attenuation_factor = att_w[w].copy()
        p.init_energy_exchange(K, radi.ir_length_s, source, sampling_rate=fs, speed_of_sound=c)
        nother = sum(len(radi.patch_list[int(o)].patches) for o in p.other_wall_ids)
        p.form_factors = rng.random((len(p.patches), nother))
        d0 = rng.integers(0, N + 3, len(p.patches))
        e0 = rng.random((len(p.patches), nb))
        p.E_matrix[:] = 0.0
        for r in range(len(p.patches)):
            if d0[r] < N:
                p.E_matrix[:, 0, r, d0[r]] = e0[r]
        ffs.append(p.form_factors.copy()); e0s.append(e0); d0s.append(d0)
    for k in range(1, K + 1):
        for p in radi.patch_list:
            p.calculate_energy_exchange(radi.patch_list, k, speed_of_sound=c, E_sampling_rate=fs)
    tok = scene_tokens(radi, source)
    tok.cmd("q_kang_run_data").i(K).i(N)
    for f in ffs:
        tok.arr(f)
    for d in d0s:
        tok.arr(d, "i")
    for e in e0s:
        tok.arr(e)
    res = run_driver(tok)
    Emod = parse_E(res[0][1], radi, K, N)
    E = impl_E(radi)
    mu = 0.0
    for k in range(K + 1):
        for w in range(nwalls):
            m = cmp_float(E[k][w], Emod[k][w], what="E_matrix order %d wall %d" % (k, w))
            if m:
                out["mismatches"].append(dict(stage="calculate_energy_exchange(synthetic)", what=m, case=tag))
            else:
                mu = max(mu, ulp_dist(E[k][w], Emod[k][w]))
    out["max_ulp"] = mu
    out["traces"] = 1
    # the stated formula, with the supplied matrices read through the documented layout
    for k in range(K):
        nxt = recompute_next(radi, E[k], ffs)
        for w in range(nwalls):
            if not close(E[k + 1][w], nxt[w]):
                out["prop_failures"].append(dict(
                    test="recursion", order=k + 1, wall=w, case=tag,
                    what="synthetic form factors: order-%d energy of wall %d is not the stated sum over the "
                         "order-%d energy of the other walls: %s" % (k + 1, w, k, first_diff(E[k + 1][w], nxt[w]))))
                break
    if nwalls >= 2:
        out["nontrivial"].append(case_hash(tag))
    return out


def _guard(fn, spec, kernel):
    """an exception raised by the engine on a valid scene is a failure of the property on that input
    (the engine does not compute the stated recursion there); a driver failure is a correspondence break"""
    try:
        return fn(spec)
    except Exception as exc:  # noqa: BLE001
        import traceback
        tag = dict(engine="kang", seed=spec["seed"], idx=spec["idx"], quick=spec.get("quick", True), kernel=kernel,
                   force=spec.get("force"))
        out = {"evaluations": 1, "mismatches": [], "prop_failures": [], "dist": {"raised": 1}, "nontrivial": [],
               "sample": tag}
        tb = traceback.format_exc()
        what = "%s: %s | %s" % (type(exc).__name__, exc, " / ".join(tb.strip().splitlines()[-6:]))
        if isinstance(exc, RuntimeError) and "driver failed" in str(exc):
            out["mismatches"].append(dict(stage="driver", what=what, case=tag))
        else:
            out["prop_failures"].append(dict(test="exception", what="the run raised on a valid scene: " + what,
                                             case=tag))
        return out


def scene_case(spec):
    return _guard(_scene_case, spec, False)


def kernel_case(spec):
    return _guard(_kernel_case, spec, True)



def rerun_case(spec):
    """the same RadiosityKang object run twice (another source first): the second result must be
    the result of a fresh object -- nothing of the earlier run may survive in the histograms"""
    rng = np.random.default_rng([spec["seed"], 40000 + spec["idx"]])
    out = {"evaluations": 1, "mismatches": [], "prop_failures": [], "dist": {"rerun": 1}, "nontrivial": []}
    cfg = draw_cfg(rng, True)
    tag = dict(cfg, engine="kang", seed=spec["seed"], idx=spec["idx"], rerun=True)
    out["sample"] = tag
    fresh, source, receiver = build(cfg)
    fresh.run(source)
    E_fresh = impl_E(fresh)
    resp_fresh = fresh.energy_at_receiver(receiver, ignore_direct=False)
    reused, _, _ = build(cfg)
    other = np.array(cfg["src"], dtype=float)
    other = other + (np.array(cfg["dims"]) / 2 - other) * 0.5
    reused.run(sp.geometry.SoundSource(other, [0, 1, 0], [0, 0, 1], sound_power=cfg["power"]))
    reused.run(source)
    E_again = impl_E(reused)
    resp_again = reused.energy_at_receiver(receiver, ignore_direct=False)
    same = all(np.array_equal(a, b) for ka, kb in zip(E_fresh, E_again) for a, b in zip(ka, kb)) \
        and np.array_equal(resp_fresh, resp_again)
    if not same:
        out["prop_failures"].append(dict(
            test="rerun", case=tag,
            what="running an object for a second source does not give the fresh object's histograms: energy of the "
                 "earlier run survives (patches show energy before sound from the active source can reach them)"))
    out["traces"] = 1
    out["nontrivial"].append(case_hash(tag))
    return out

def run(res):
    quick = res.tier == "quick"
    n_scene = 400 if quick else 3000
    n_kernel = 160 if quick else 1500
    specs = [dict(seed=res.seed, idx=i, quick=quick) for i in range(n_scene)]
    for r in fw.run_parallel(scene_case, specs):
        res.absorb(r)
    for r in fw.run_parallel(kernel_case, [dict(seed=res.seed, idx=i) for i in range(n_kernel)]):
        res.absorb(r)
    for r in fw.run_parallel(rerun_case, [dict(seed=res.seed, idx=i) for i in range(8 if res.tier == 'quick' else 80)]):
        res.absorb(r)
    res.rule = ("subsets (2-6, any order) of the walls of shoebox_room_stub rooms with 1-3 patches per side "
                "(<= 24 patches in the quick tier), dyadic or generic sides, PatchesKang walls with per-wall "
                "absorption (incl. exact 0 and 1) and scattering, 1-2 bands, m >= 0, natural or permuted "
                "other_wall_ids, orders 1-3, long / short / shorter-than-first-arrival histograms; plus synthetic "
                "random form-factor matrices and order-0 histograms fed to calculate_energy_exchange; non-trivial "
                "= at least 2 walls and energy in the highest order; distinct by input hash")
    res.not_carried = NOT_CARRIED
    res.assumptions = ASSUMPTIONS


def replay_case(res, case):
    """re-run a recorded Kang-engine case (also used by the checks that borrow these cases);
    returns False if [case] is not one of ours"""
    if not isinstance(case, dict) or "seed" not in case or "idx" not in case:
        return False
    if case.get("engine") != "kang" and "subset" not in case:
        return False
    if case.get("rerun"):
        res.absorb(fw.run_parallel(rerun_case, [dict(seed=case["seed"], idx=case["idx"])])[0])
    elif case.get("kernel") is True:
        res.absorb(kernel_case(dict(seed=case["seed"], idx=case["idx"])))
    elif case.get("kernel") is False:
        res.absorb(scene_case(dict(seed=case["seed"], idx=case["idx"], quick=case.get("quick", True),
                                   force=case.get("force"))))
    else:
        return False
    return True


def replay(res, payload):
    for f in payload.get("failures", []) + payload.get("correspondence", []):
        replay_case(res, f.get("case", {}))
    res.rule = "replay of recorded cases"
    res.not_carried = NOT_CARRIED
    res.assumptions = ASSUMPTIONS
