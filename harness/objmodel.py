"""Shared machinery of C15 / C16: random op sequences executed on the real
DirectionalRadiosityFast object and on the extracted L2 state machine (coq/theories/Model/Object.v).

After every public call the harness records the exception class, presence / kind / shape / ownership of all 25
attributes and a content hash of every value; the model predicts class, presence, kind, shape, ownership and a
provenance term.  Equal provenance terms anywhere (same run, twin, canonical history) must carry bit-identical
values."""
import os
import hashlib

import numpy as np
import pyfar as pf

import common
from common import Tok, run_driver
import scenes as S

import sparrowpy as sp

R = sp.DirectionalRadiosityFast

DICT_FIELDS = ["walls_points", "walls_normal", "walls_up_vector", "patches_points", "n_patches",
               "patch_to_wall_ids", "visibility_matrix", "visible_patches", "form_factors", "form_factors_tilde",
               "frequencies", "brdf", "brdf_index", "brdf_incoming_directions", "brdf_outgoing_directions",
               "patch_2_brdf_outgoing_index", "air_attenuation", "speed_of_sound", "etc_time_resolution",
               "etc_duration", "distance_patches_to_source", "energy_init_source", "energy_exchange_etc"]
FIELDS = DICT_FIELDS + ["source", "source_visibility"]


# --------------------------------------------------------------------------
# hashing
# --------------------------------------------------------------------------
def _sha(*parts):
    h = hashlib.sha256()
    for p in parts:
        h.update(p if isinstance(p, bytes) else repr(p).encode())
    return h.hexdigest()[:20]


def h_arr(a):
    a = np.asarray(a)
    k = a.dtype.kind
    if k == "b":
        b, c = a.astype(np.uint8), "b"
    elif k in "iu":
        b, c = a.astype(np.int64), "i"
    elif k == "f":
        b, c = a.astype(np.float64), "f"
    elif k == "c":
        b, c = a.astype(np.complex128), "c"
    else:
        return _sha("obj", [h_any(x) for x in a.reshape(-1)])
    return _sha(c, a.shape, np.ascontiguousarray(b).tobytes())


def h_coord(c):
    w = c.weights
    return _sha("coord", h_arr(np.asarray(c.cartesian, dtype=float)), "None" if w is None else h_arr(w))


def h_any(v):
    if v is None:
        return "None"
    if isinstance(v, pf.Coordinates):
        return h_coord(v)
    if isinstance(v, pf.FrequencyData):
        return _sha("fd", h_arr(v.freq), h_arr(v.frequencies))
    if isinstance(v, np.ndarray):
        return h_arr(v)
    if isinstance(v, (list, tuple)):
        return _sha("list", [h_any(x) for x in v])
    if isinstance(v, (bool, np.bool_)):
        return _sha("bool", bool(v))
    if isinstance(v, (int, np.integer)):
        return _sha("int", int(v))
    if isinstance(v, (float, np.floating)):
        return _sha("float", float(v).hex())
    if isinstance(v, dict):
        return _sha("dict", [(k, h_any(x)) for k, x in sorted(v.items())])
    return _sha("other", type(v).__name__)


def kind_of(v):
    if isinstance(v, np.ndarray):
        k = v.dtype.kind
        return {"O": "objarr", "b": "arrb", "i": "arri", "u": "arri", "f": "arrf"}.get(k, "arr" + k)
    if isinstance(v, list):
        return "list"
    if isinstance(v, bool):
        return "bool"
    if isinstance(v, int):
        return "int"
    if isinstance(v, float):
        return "float"
    if isinstance(v, (pf.Coordinates,)):
        return "obj"
    return type(v).__name__


def shape_of(v):
    if isinstance(v, np.ndarray):
        return tuple(int(x) for x in v.shape)
    if isinstance(v, list):
        return (len(v),)
    return ()


# --------------------------------------------------------------------------
# environment of one case: room + all caller-owned data (created once, never copied)
# --------------------------------------------------------------------------
class Env:
    def __init__(self, rng):
        cfg = S.draw_config(rng, multi_dir=True, max_patches=14)
        self.dims, self.ps = cfg["dims"], cfg["patch_size"]
        self.phase = cfg["phase"]
        nx, ny, nz = [int(d / self.ps) for d in self.dims]
        self.counts = [nx * nz, nx * nz, nx * ny, nx * ny, ny * nz, ny * nz]
        self.nw = 6
        self.np = int(sum(self.counts))
        self.nvis = int(sum(self.counts[a] * self.counts[b] for a in range(6) for b in range(a + 1, 6)))
        self.nb = int(rng.integers(1, 4))
        main = np.array([125.0 * 2 ** k for k in range(self.nb)])
        self.freq = {1: main, 2: main * 1.5, 3: np.array([100.0 * (k + 1) for k in range(self.nb + 1)])}
        # directions: 0 = the pole (1 direction); 1, 2 = two hemisphere samplings of equal size; 3 = negative z
        nt, nphi = int(rng.integers(1, 3)), int(rng.choice([2, 4]))
        self.single = bool(rng.random() < 0.3)          # primary tables use the pole only
        self.dirs = {0: pf.Coordinates(0, 0, 1, weights=1),
                     1: S.gauss_hemisphere(nt, nphi, phase=self.phase),
                     2: S.gauss_hemisphere(nt, nphi, phase=self.phase + 0.31),
                     3: pf.Coordinates([0.0, 0.6], [0.0, 0.0], [1.0, -0.8], weights=[1.0, 1.0])}
        # outgoing sets: separate objects; for half of the environments other directions than the
        # incoming ones (same count), so that a mix-up of the two lists is visible
        self.dirs_out = {k: v.copy() for k, v in self.dirs.items()}
        if rng.random() < 0.5:
            self.dirs_out[1] = S.gauss_hemisphere(nt, nphi, phase=self.phase + 0.17)
            self.dirs_out[2] = S.gauss_hemisphere(nt, nphi, phase=self.phase + 0.52)
            self.dirs_out[3] = pf.Coordinates([0.0, -0.6], [0.0, 0.0], [1.0, -0.8], weights=[1.0, 1.0])
        self.ndir = {0: 1, 1: nt * nphi, 2: nt * nphi, 3: 2}
        prim = [0] if self.single else [1, 2]
        odd = 1 if self.single else 0
        # tables: id -> (dirs id, freq id)
        self.tab = {}
        for t in range(1, 7):
            self.tab[t] = (prim[t % len(prim)], 1)
        self.tab[7] = (odd, 1)
        self.tab[8] = (odd, 1)
        self.tab[9] = (prim[0], 2)        # same number of bands, other frequencies
        self.tab[10] = (prim[0], 3)       # one band more
        self.tab[11] = (3, 1)             # negative z
        self.primary_tabs = [1, 2, 3, 4, 5, 6]
        self.odd_tabs = [7, 8]
        self.fd = {}
        for t, (d, f) in self.tab.items():
            n = self.ndir[d]
            nbt = len(self.freq[f])
            data = rng.uniform(0.0, 0.9, (n, n, nbt)) / np.pi
            if rng.random() < 0.15:
                data[:] = 0.0
            self.fd[t] = pf.FrequencyData(data, self.freq[f].copy())
        # attenuation: id -> freq id
        self.att = {1: 1, 2: 1, 3: 3}
        self.att_raw = {a: np.round(rng.uniform(0.0, 0.08, len(self.freq[f])), 4) for a, f in self.att.items()}
        self.ad = {a: pf.FrequencyData(self.att_raw[a], self.freq[f].copy()) for a, f in self.att.items()}
        self.src = {i: pf.Coordinates(*S.draw_inside(rng, self.dims)) for i in (1, 2)}
        # in about a third of the environments source 2 stands OUTSIDE the room (beyond one wall): it sees
        # fewer patches than source 1, so whatever an earlier source left on now-hidden patches would show
        self.src2_outside = bool(rng.random() < 0.35)
        if self.src2_outside:
            # ... moved there from source 1 along one axis only (the other two coordinates are shared)
            pos = np.array(self.src[1].cartesian, dtype=float).reshape(3).copy()
            ax = int(rng.integers(0, 3))
            pos[ax] = (self.dims[ax] + float(rng.uniform(0.3, 1.0))) if rng.random() < 0.5 else -float(rng.uniform(0.3, 1.0))
            self.src[2] = pf.Coordinates(*pos)
        self.recv = {i: pf.Coordinates(*S.draw_inside(rng, self.dims)) for i in (1, 2)}
        self.timing = {}
        used = set()
        for i in (1, 2, 3):
            while True:
                c = float(np.round(rng.uniform(330.0, 350.0), 2))
                n = int(rng.integers(5, 22))
                dt = float(np.round(rng.uniform(0.001, 0.004), 6))
                dur = (n + 0.5) * dt
                if int(dur / dt) == n and n not in used:
                    used.add(n)
                    break
            self.timing[i] = (c, dt, dur, n)
        # timing 4: the speed and resolution of timing 1 with a strictly shorter duration (a result
        # computed with timing 1 could be 'reused' by truncation -- only if nothing else changed)
        c1, dt1, _d1, n1 = self.timing[1]
        n4 = max(2, n1 - int(rng.integers(1, max(2, n1 - 2))))
        self.timing[4] = (c1, dt1, (n4 + 0.5) * dt1, n4)
        self.caller_lists = []     # lists handed to from_dict (inside the caller's dictionary)
        self.caller_dicts = []
        self.arg_mutations = []
        self.tmpdir = None

    def new_object(self):
        return R.from_polygon(S.shoebox(*self.dims), self.ps)

    def tag(self):
        return dict(dims=self.dims, patch_size=self.ps, n_patches=self.np, nb=self.nb,
                    ndir=self.ndir[1], single=self.single)

    # every caller-owned object, for the no-mutation test
    def caller_objects(self):
        objs = []
        for k in sorted(self.fd):
            objs.append(("table%d" % k, self.fd[k]))
        for k in sorted(self.ad):
            objs.append(("att%d" % k, self.ad[k]))
            objs.append(("att_raw%d" % k, self.att_raw[k]))
        for k in sorted(self.dirs):
            objs.append(("dirs_in%d" % k, self.dirs[k]))
            objs.append(("dirs_out%d" % k, self.dirs_out[k]))
        for k in sorted(self.src):
            objs.append(("src%d" % k, self.src[k]))
        for k in sorted(self.recv):
            objs.append(("recv%d" % k, self.recv[k]))
        for i, d in enumerate(self.caller_dicts):
            objs.append(("dict%d" % i, d))
        return objs

    def caller_hashes(self):
        return {name: h_any(o) for name, o in self.caller_objects()}

    def caller_arrays(self):
        arrs = []
        for fd in list(self.fd.values()) + list(self.ad.values()):
            arrs.append(fd._data)
            arrs.append(fd._frequencies)
        arrs.extend(self.att_raw.values())
        return arrs

    def is_alias(self, v):
        if isinstance(v, np.ndarray):
            if v.dtype == object:
                return False
            return any(np.shares_memory(v, a) for a in self.caller_arrays())
        if isinstance(v, list):
            return any(v is lst for lst in self.caller_lists)
        if isinstance(v, pf.Coordinates):
            return any(v is c for c in list(self.src.values()) + list(self.recv.values()))
        return False


# --------------------------------------------------------------------------
# ops:  ("brdf", walls, tab) ("att", aid) ("bake",) ("src", i) ("exch", tid, order, recalc)
#       ("collect", recv, direct) ("dict",) ("file",)
# --------------------------------------------------------------------------
def op_tokens(env, op, tok):
    k = op[0]
    if k == "brdf":
        _, walls, tab = op
        d, f = env.tab[tab]
        tok.i(0).i(len(walls))
        for w in walls:
            tok.i(w)
        tok.i(tab).i(d).i(env.ndir[d]).i(f).i(len(env.freq[f])).b(d == 3)
    elif k == "att":
        f = env.att[op[1]]
        tok.i(1).i(op[1]).i(f).i(len(env.freq[f]))
    elif k == "bake":
        tok.i(2)
    elif k == "src":
        tok.i(3).i(op[1])
    elif k == "exch":
        _, tid, order, recalc = op
        tok.i(4).i(tid).i(env.timing[tid][3]).i(max(order, 0)).b(recalc)
    elif k == "collect":
        tok.i(5).i(op[1]).b(op[2])
    elif k == "dict":
        tok.i(6)
    elif k == "file":
        tok.i(7)
    else:
        raise ValueError(op)


def run_model(env, ops):
    tok = Tok()
    tok.cmd("q_object").i(env.nw).i(env.np).i(env.nvis).i(len(ops))
    for op in ops:
        op_tokens(env, op, tok)
    res = run_driver(tok)
    steps = [t for name, t in res if name == "o_step"]
    checks = [t[0] for name, t in res if name == "o_check"]
    assert len(steps) == len(ops), (len(steps), len(ops))
    out = []
    for t in steps:
        fields = []
        for s in t[2:]:
            fields.append(None if s == "None" else parse_desc(s))
        out.append(dict(cls=t[0], obs=None if t[1] == "None" else parse_desc(t[1]), fields=fields))
    for o, c in zip(out, checks):
        o["check"] = c
    return out


def parse_desc(s):
    kind, own, shape, term = s.split(":", 3)
    sh = () if shape == "-" else tuple(int(x) for x in shape.split("x"))
    return dict(kind=kind, own=own, shape=sh, term=term)


def split_args(term):
    """top-level arguments of  name[nums](a,b,c)"""
    i = term.find("(")
    if i < 0 or not term.endswith(")"):
        return []
    body = term[i + 1:-1]
    out, depth, cur = [], 0, []
    for ch in body:
        if ch in "([":
            depth += 1
        elif ch in ")]":
            depth -= 1
        if ch == "," and depth == 0:
            out.append("".join(cur))
            cur = []
        else:
            cur.append(ch)
    if cur:
        out.append("".join(cur))
    return out


def apply_op(env, x, op):
    """returns (class name, observation or None, object to continue with)"""
    k = op[0]
    try:
        if k == "brdf":
            _, walls, tab = op
            d, _f = env.tab[tab]
            w = list(walls) if len(walls) % 2 else np.array(walls)
            try:
                x.set_wall_brdf(w, env.fd[tab], env.dirs[d], env.dirs_out[d])
            finally:
                if list(w) != list(walls):
                    env.arg_mutations.append("wall_indexes of set_wall_brdf")
        elif k == "att":
            x.set_air_attenuation(env.ad[op[1]])
        elif k == "bake":
            x.bake_geometry()
        elif k == "src":
            x.init_source_energy(env.src[op[1]])
        elif k == "exch":
            _, tid, order, recalc = op
            c, dt, dur, _n = env.timing[tid]
            x.calculate_energy_exchange(c, dt, dur, order, recalculate=recalc)
        elif k == "collect":
            etc = x.collect_energy_receiver_mono(env.recv[op[1]], direct_sound=bool(op[2]))
            return "Ok", np.array(etc.time), x
        elif k == "dict":
            d = x.to_dict()
            y = R.from_dict(d)
            # the caller's dictionary: only its two direction lists are tracked (from_dict keeps them)
            keep = {f: d[f] for f in ("brdf_incoming_directions", "brdf_outgoing_directions")
                    if isinstance(d[f], list)}
            env.caller_dicts.append(keep)
            env.caller_lists.extend(keep.values())
            return "Ok", None, y
        elif k == "file":
            return "Ok", None, file_roundtrip(env, x)
        return "Ok", None, x
    except Exception as e:  # noqa: BLE001
        return type(e).__name__, None, x


def file_roundtrip(env, x, compress=False):
    os.makedirs(env.tmpdir, exist_ok=True)
    fn = os.path.join(env.tmpdir, "obj_%d.far" % len(os.listdir(env.tmpdir)))
    try:
        x.write(fn, compress=compress)
        return R.from_read(fn)
    finally:
        if os.path.exists(fn):
            os.remove(fn)


def snapshot(env, x):
    snap = []
    for f in FIELDS:
        if not hasattr(x, "_" + f):
            snap.append(None)
            continue
        v = getattr(x, "_" + f)
        if v is None:
            snap.append(None)
            continue
        elems = None
        if isinstance(v, list) or (isinstance(v, np.ndarray) and v.dtype == object):
            elems = [h_any(e) for e in list(v)]
        snap.append(dict(kind=kind_of(v), shape=shape_of(v), own="A" if env.is_alias(v) else "F",
                         hash=h_any(list(v) if elems is not None else v), elems=elems))
    return snap


def state_hashes(snap, only_dict=False):
    n = len(DICT_FIELDS) if only_dict else len(FIELDS)
    return [None if s is None else (s["shape"], s["hash"]) for s in snap[:n]]


class Registry:
    """provenance term -> content hash; equal terms must carry equal bits"""

    def __init__(self):
        self.seen = {}

    def add(self, term, h, where):
        old = self.seen.get(term)
        if old is None:
            self.seen[term] = (h, where)
            return None
        if old[0] != h:
            return "provenance %s: bits differ between %s and %s" % (term[:160], old[1], where)
        return None


def compare_step(env, reg, where, impl_cls, impl_obs, snap, model, out_mism, tag):
    """compare one step; returns False when the model declares the outcome unspecified"""
    if model["cls"] == "Unspec":
        return False

    def mism(what):
        out_mism.append(dict(stage="object-step", what="%s: %s" % (where, what), case=tag))

    if impl_cls != model["cls"]:
        mism("exception class: code %s, model %s" % (impl_cls, model["cls"]))
        return True
    if (impl_obs is None) != (model["obs"] is None):
        mism("observation presence differs")
    elif impl_obs is not None:
        if tuple(impl_obs.shape) != model["obs"]["shape"]:
            mism("observation shape %s vs model %s" % (impl_obs.shape, model["obs"]["shape"]))
        m = reg.add(model["obs"]["term"], h_arr(impl_obs), where + "/obs")
        if m:
            mism(m)
    for f, s, md in zip(FIELDS, snap, model["fields"]):
        if (s is None) != (md is None):
            mism("%s: presence code=%s model=%s" % (f, s is not None, md is not None))
            continue
        if s is None:
            continue
        if s["kind"] != md["kind"]:
            mism("%s: kind code=%s model=%s" % (f, s["kind"], md["kind"]))
        if s["shape"] != md["shape"]:
            mism("%s: shape code=%s model=%s" % (f, s["shape"], md["shape"]))
        if s["own"] != md["own"]:
            mism("%s: ownership code=%s model=%s (A = shares memory with / is a caller-owned object)"
                 % (f, s["own"], md["own"]))
        m = reg.add(md["term"], s["hash"], "%s/%s" % (where, f))
        if m:
            mism(m)
        if s["elems"] is not None:
            args = split_args(md["term"])
            if len(args) == len(s["elems"]):
                for a, hsh in zip(args, s["elems"]):
                    m = reg.add(a, hsh, "%s/%s[]" % (where, f))
                    if m:
                        mism(m)
            elif md["term"] != "list":
                mism("%s: %d elements, model term has %d" % (f, len(s["elems"]), len(args)))
    return True


# --------------------------------------------------------------------------
# op-sequence generator
# --------------------------------------------------------------------------
def gen_setters(rng, env, dist):
    calls = []
    u = rng.random()
    mode = "none" if u < 0.07 else ("partial" if u < 0.14 else "full")
    dist["materials_" + mode] = dist.get("materials_" + mode, 0) + 1
    if mode != "none":
        walls = list(range(6))
        rng.shuffle(walls)
        if mode == "partial":
            walls = walls[:int(rng.integers(1, 6))]
        ngroups = int(rng.integers(1, len(walls) + 1))
        cuts = sorted(rng.choice(np.arange(1, len(walls)), size=ngroups - 1, replace=False).tolist()) if ngroups > 1 else []
        groups = [walls[a:b] for a, b in zip([0] + cuts, cuts + [len(walls)])]
        for gr in groups:
            calls.append(("brdf", sorted(int(w) for w in gr), int(rng.choice(env.primary_tabs))))
        if rng.random() < 0.45:     # overwrite some walls with another table of the same size
            k = int(rng.integers(1, 7))
            ws = sorted(int(w) for w in rng.choice(6, size=k, replace=False))
            calls.insert(int(rng.integers(0, len(calls) + 1)), ("brdf", ws, int(rng.choice(env.primary_tabs))))
            dist["overwrite"] = dist.get("overwrite", 0) + 1
        if rng.random() < 0.12:     # a table with another number of directions
            k = int(rng.choice([6, 6, int(rng.integers(1, 6))]))
            ws = sorted(int(w) for w in rng.choice(6, size=k, replace=False))
            pos = 0 if rng.random() < 0.6 else int(rng.integers(0, len(calls) + 1))
            calls.insert(pos, ("brdf", ws, int(rng.choice(env.odd_tabs))))
            dist["odd_table"] = dist.get("odd_table", 0) + 1
    if rng.random() < 0.85:
        calls.insert(int(rng.integers(0, len(calls) + 1)), ("att", int(rng.choice([1, 2]))))
        if rng.random() < 0.2:
            calls.insert(int(rng.integers(0, len(calls) + 1)), ("att", int(rng.choice([1, 2]))))
    else:
        dist["no_attenuation"] = dist.get("no_attenuation", 0) + 1
    if rng.random() < 0.12:
        bad = [("brdf", [int(rng.integers(0, 6))], 9), ("brdf", [0, 1], 10), ("att", 3),
               ("brdf", [int(rng.integers(0, 6))], 11)][int(rng.integers(0, 4))]
        calls.insert(int(rng.integers(0, len(calls) + 1)), bad)
        dist["rejected_setter"] = dist.get("rejected_setter", 0) + 1
    return calls


def gen_ops(rng, env, dist, n_roundtrips=(0, 2), tail_prob=0.5):
    ops = gen_setters(rng, env, dist)

    def exch(recalc=None, tid=None):
        order = int(rng.choice([0, 1, 1, 2, 2, 3]))
        if order == 0 and rng.random() < 0.5:
            order = -1
        return ("exch", int(tid or rng.integers(1, 4)), order,
                bool(rng.random() < 0.5) if recalc is None else recalc)

    def collect():
        return ("collect", int(rng.integers(1, 3)), bool(rng.random() < 0.4))

    stages = [("bake",), ("src", int(rng.integers(1, 3))), exch(), collect()]
    if rng.random() < 0.15:                     # source before bake
        stages[0], stages[1] = stages[1], stages[0]
    ops += stages
    for _ in range(int(rng.integers(0, 4))):
        u = rng.random()
        if u < 0.25:      # re-source
            ops += [("src", int(rng.integers(1, 3))), exch(recalc=bool(rng.random() < 0.75)), collect()]
        elif u < 0.45:    # other order / resolution / duration
            ops += [exch(), collect()]
        elif u < 0.65:    # late setter, sometimes followed by the stages again
            if rng.random() < 0.5:
                ops.append(("att", int(rng.choice([1, 2]))))
            else:
                k = int(rng.integers(1, 7))
                ops.append(("brdf", sorted(int(w) for w in rng.choice(6, size=k, replace=False)),
                            int(rng.choice(env.primary_tabs))))
            if rng.random() < 0.6:
                ops += [("bake",), ("src", int(rng.integers(1, 3))), exch(recalc=True)]
            dist["late_setter"] = dist.get("late_setter", 0) + 1
        elif u < 0.8:     # re-bake
            ops += [("bake",)]
        else:
            ops += [collect()]
    # perturbations
    if rng.random() < 0.12 and len(ops) > 2:
        i = int(rng.integers(0, len(ops) - 1))
        ops[i], ops[i + 1] = ops[i + 1], ops[i]
        dist["swapped"] = dist.get("swapped", 0) + 1
    if rng.random() < 0.08:
        i = int(rng.integers(0, len(ops)))
        if ops[i][0] in ("bake", "src", "exch"):
            del ops[i]
            dist["dropped_stage"] = dist.get("dropped_stage", 0) + 1
    # repeats (idempotence): same op twice in a row
    reps = []
    for i, o in enumerate(ops):
        if o[0] in ("bake", "src", "att") or (o[0] == "exch" and o[3]):
            if rng.random() < 0.2:
                reps.append(i)
    for i in reversed(reps):
        ops.insert(i + 1, ops[i])
    if rng.random() < tail_prob:
        if rng.random() < 0.35:
            # compute for one source with timing 1, then re-source and recompute with the same speed,
            # resolution and order but a shorter duration (timing 4)
            a = int(rng.integers(1, 3))
            o = int(rng.choice([1, 2, 3]))
            ops += [("src", a), ("exch", 1, o, True), ("bake",), ("src", 3 - a), ("exch", 4, o, True)]
            dist["tail_resource_shorter"] = dist.get("tail_resource_shorter", 0) + 1
        else:
            ops += [("bake",), ("src", int(rng.integers(1, 3))), exch(recalc=True)]
    for _ in range(int(rng.integers(n_roundtrips[0], n_roundtrips[1] + 1))):
        ops.insert(int(rng.integers(0, len(ops) + 1)), ("dict",) if rng.random() < 0.6 else ("file",))
    return ops


def effective_config(env, ops, classes):
    """the configuration in force after the history: per wall the last accepted caller table, the last accepted
    caller attenuation (None where nothing was set by the caller)"""
    walls = [None] * 6
    att = None
    for o, c in zip(ops, classes):
        if c != "Ok":
            continue
        if o[0] == "brdf":
            for w in o[1]:
                walls[w] = o[2]
        elif o[0] == "att":
            att = o[1]
    return walls, att


def canonical_ops(walls, att, tail):
    ops = [("brdf", [w], t) for w, t in enumerate(walls) if t is not None]
    if att is not None:
        ops.append(("att", att))
    return ops + list(tail)


def run_history(env, ops, reg, out, tag, label, hook=None, frame=False, x=None):
    """execute ops on the implementation and on the model, compare after every call.
    hook(i, op, cls, x_before, x_after, snap, obs_hash) is called after every call.
    Returns dict(classes, snaps, obs, x, compared)."""
    model = run_model(env, ops)
    env.last_model = model
    x = x or env.new_object()
    classes, snaps, obss = [], [], []
    comparing = True
    compared = 0
    for i, op in enumerate(ops):
        before = env.caller_hashes() if frame else None
        cls, obs, x2 = apply_op(env, x, op)
        if frame:
            after = env.caller_hashes()
            for name in before:
                if before[name] != after.get(name):
                    key = "dict_direction_list_mutated" if name.startswith("dict") else "caller_data_mutated"
                    out["prop_failures"].append(dict(
                        test=key, case=tag, op=list(op), step=i,
                        what="%s: caller-owned object %s changed during %s" % (label, name, op[0])))
        if frame and env.arg_mutations:
            out["prop_failures"].append(dict(test="caller_data_mutated", case=tag, op=list(op), step=i,
                                             what="%s: %s changed" % (label, env.arg_mutations.pop())))
        snap = snapshot(env, x2)
        classes.append(cls)
        snaps.append(snap)
        obss.append(None if obs is None else h_arr(obs))
        if comparing:
            comparing = compare_step(env, reg, "%s#%d:%s" % (label, i, op[0]), cls, obs, snap, model[i],
                                     out["mismatches"], tag)
            if comparing:
                compared += 1
            else:
                out["dist"]["model_unspecified"] = out["dist"].get("model_unspecified", 0) + 1
        if hook is not None:
            hook(i, op, cls, x, x2, snap, obss[-1])
        x = x2
    return dict(classes=classes, snaps=snaps, obs=obss, x=x, compared=compared, model=model)
