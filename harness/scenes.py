"""Scene generators, implementation runner and model-session writer for the
DirectionalRadiosityFast pipeline."""
import numpy as np
from common import Tok, run_driver, floats, ints, cmp_float, cmp_exact

import pyfar as pf
import sparrowpy as sp
from sparrowpy import geometry
from sparrowpy.form_factor import integration


# --------------------------------------------------------------------------
# generators
# --------------------------------------------------------------------------
def away_from_int(x, eps=1e-6):
    return abs(x - round(x)) > eps


def gauss_hemisphere(n_theta, n_phi, scale=1.0, phase=0.0):
    """Gauss-Legendre in cos(theta) on [0,1] x uniform azimuth (n_phi even):
    sum(w*cos) == sum(w)/2 and closed under azimuth+pi."""
    x, w = np.polynomial.legendre.leggauss(n_theta)
    cos_t = (x + 1) / 2
    wt = w / 2
    az = (np.arange(n_phi) + 0.5) * 2 * np.pi / n_phi + phase
    pts = []
    ws = []
    for c, wc in zip(cos_t, wt):
        s = np.sqrt(max(0.0, 1 - c * c))
        for a in az:
            pts.append([s * np.cos(a), s * np.sin(a), c])
            ws.append(wc * 2 * np.pi / n_phi)
    pts = np.array(pts)
    return pf.Coordinates(pts[:, 0], pts[:, 1], pts[:, 2], weights=np.array(ws) * scale)


def shoebox(X, Y, Z, off=(0.0, 0.0, 0.0)):
    ox, oy, oz = off
    P = geometry.Polygon

    def sh(pts):
        return [[p[0] + ox, p[1] + oy, p[2] + oz] for p in pts]
    return [
        P(sh([[0, 0, 0], [X, 0, 0], [X, 0, Z], [0, 0, Z]]), [1, 0, 0], [0, 1, 0]),
        P(sh([[0, Y, 0], [X, Y, 0], [X, Y, Z], [0, Y, Z]]), [1, 0, 0], [0, -1, 0]),
        P(sh([[0, 0, 0], [X, 0, 0], [X, Y, 0], [0, Y, 0]]), [1, 0, 0], [0, 0, 1]),
        P(sh([[0, 0, Z], [X, 0, Z], [X, Y, Z], [0, Y, Z]]), [1, 0, 0], [0, 0, -1]),
        P(sh([[0, 0, 0], [0, 0, Z], [0, Y, Z], [0, Y, 0]]), [0, 0, 1], [1, 0, 0]),
        P(sh([[X, 0, 0], [X, 0, Z], [X, Y, Z], [X, Y, 0]]), [0, 0, 1], [-1, 0, 0]),
    ]


def draw_room(rng, max_patches=30, min_patches=6):
    """Shoebox with non-integer sides in [1,6] m and a patch size keeping the
    floor() of side/size away from the rounding edge."""
    for _ in range(1000):
        dims = [float(np.round(rng.uniform(1.0, 6.0), 3)) for _ in range(3)]
        ps = float(np.round(rng.uniform(0.45, 1.0) * min(dims), 3))
        ok = all(away_from_int(d / ps, 1e-3) for d in dims)
        n = [int(d / ps) for d in dims]
        if not ok or min(n) < 1:
            continue
        npat = 2 * (n[0] * n[1] + n[0] * n[2] + n[1] * n[2])
        if min_patches <= npat <= max_patches:
            return dims, ps, npat
    raise RuntimeError("no room drawn")


def draw_inside(rng, dims, off=(0, 0, 0), margin=0.15):
    return np.array([off[k] + rng.uniform(margin * dims[k], (1 - margin) * dims[k]) for k in range(3)])


def draw_config(rng, nb=None, multi_dir=False, uniform_alpha=None, att_zero=False,
                max_patches=30, random_tables=False, offset=False, partition=False):
    dims, ps, npat = draw_room(rng, max_patches=max_patches)
    nb = nb or int(rng.integers(1, 4))
    freqs = np.array([125.0 * 2 ** k for k in range(nb)])
    if uniform_alpha is None:
        alpha = rng.uniform(0.0, 1.0, (6, nb))
        # exact 0 and 1 show up regularly
        for w in range(6):
            u = rng.random()
            if u < 0.12:
                alpha[w, :] = 1.0
            elif u < 0.24:
                alpha[w, :] = 0.0
    else:
        alpha = np.full((6, nb), float(uniform_alpha))
    if uniform_alpha is None and rng.random() < 0.3:
        # two (or three) walls of the same material
        alpha[1, :] = alpha[0, :]
        if rng.random() < 0.5:
            alpha[4, :] = alpha[0, :]
    att = np.zeros(nb) if att_zero else np.round(rng.uniform(0.0, 0.08, nb), 4)
    if not att_zero and nb > 1:
        # lossless and lossy bands side by side (exact zeros next to positive values)
        for k in range(nb):
            if rng.random() < 0.3:
                att[k] = 0.0
    if multi_dir:
        nt, nphi = int(rng.integers(1, 3)), int(rng.choice([2, 4]))
    else:
        nt, nphi = 0, 0
    off = tuple(np.round(rng.uniform(-3, 3, 3), 2)) if offset else (0.0, 0.0, 0.0)
    # a generic azimuth phase keeps centre-to-centre directions of axis-aligned rooms away from
    # the bisecting planes of the sampling (exact ties of the nearest-sample lookup)
    phase = float(np.round(rng.uniform(0.05, 0.7), 4)) if multi_dir else 0.0
    assign = "override" if rng.random() < 0.35 else "direct"
    # incoming and outgoing direction sets of the BRDF: the same sampling, the same count with
    # another azimuth phase, or another count altogether
    out_dirs = None
    if multi_dir:
        u = rng.random()
        if u < 0.35:
            out_dirs = (nt, nphi, float(np.round(phase + rng.uniform(0.2, 0.6), 4)))
        elif u < 0.6:
            out_dirs = (int(rng.integers(1, 3)), int(rng.choice([2, 4])),
                        float(np.round(rng.uniform(0.75, 1.4), 4)))
    cfg = dict(out_dirs=out_dirs, assign=assign, phase=phase, dims=dims, patch_size=ps, n_patches=npat, nb=nb, freqs=freqs, alpha=alpha,
               att=att, nt=nt, nphi=nphi, random_tables=bool(random_tables), offset=off,
               table_seed=int(rng.integers(0, 2**31)))
    if partition:
        # one-sided interior partition parallel to the y-z plane, lower than the room
        for _ in range(200):
            fx = float(np.round(rng.uniform(0.3, 0.7), 2))
            fh = float(np.round(rng.uniform(0.45, 0.85), 2))
            h = fh * dims[2]
            if h / ps >= 1 and away_from_int(h / ps, 1e-3):
                cfg["partition"] = (fx, fh)
                cfg["n_patches"] = npat + int(dims[1] / ps) * int(h / ps)
                break
    return cfg


def directions(cfg):
    if cfg["nt"] == 0:
        d = pf.Coordinates(0, 0, 1, weights=1)
        return d, d
    d = gauss_hemisphere(cfg["nt"], cfg["nphi"], phase=cfg.get("phase", 0.0))
    od = cfg.get("out_dirs")
    if od:
        return d, gauss_hemisphere(int(od[0]), int(od[1]), phase=float(od[2]))
    return d, d.copy()


def wall_table(cfg, w, n_in, n_out):
    """pi*BRDF is (1-alpha) for a Lambertian wall; optional random non-negative tables."""
    nb = cfg["nb"]
    if cfg["random_tables"]:
        r = np.random.default_rng(cfg["table_seed"] + w)
        t = r.uniform(0.0, 0.6, (n_in, n_out, nb)) / np.pi
        if r.random() < 0.25:
            t[:] = 0.0
        return t
    return np.broadcast_to((1 - cfg["alpha"][w]) / np.pi, (n_in, n_out, nb)).copy()


def room_walls(cfg):
    """the six walls of the shoebox, plus an optional one-sided interior partition
    (cfg['partition'] = (x position as fraction of X, height as fraction of Z))"""
    walls = shoebox(*cfg["dims"], off=cfg["offset"])
    part = cfg.get("partition")
    if part:
        X, Y, Z = cfg["dims"]
        ox, oy, oz = cfg["offset"]
        xp, h = ox + part[0] * X, part[1] * Z
        walls.append(geometry.Polygon(
            [[xp, oy, oz], [xp, oy + Y, oz], [xp, oy + Y, oz + h], [xp, oy, oz + h]], [0, 0, 1], [-1, 0, 0]))
    return walls


def build(cfg, bake=True):
    walls = room_walls(cfg)
    nw = len(walls)
    radi = sp.DirectionalRadiosityFast.from_polygon(walls, cfg["patch_size"])
    if cfg.get("prebake"):
        radi.bake_geometry()      # baked once before any material is known; baked again below
    din, dout = directions(cfg)
    if cfg.get("assign") == "override":
        # the same final configuration reached by re-assignment: one common material for all
        # walls first, then every wall overridden (in a scrambled order) by its own table
        common = wall_table(cfg, 0, din.csize, dout.csize) * 0.5
        radi.set_wall_brdf(np.arange(nw), pf.FrequencyData(common, cfg["freqs"]), din, dout)
        order = [(3 * k + 1) % nw for k in range(nw)] if nw % 3 else list(range(nw))[::-1]
    else:
        order = list(range(nw))
    # walls of the same material get the SAME FrequencyData object (one material object handed to several
    # set_wall_brdf calls, as a user would do)
    shared = {}
    for w in order:
        tab = wall_table(cfg, min(w, 5), din.csize, dout.csize)
        key = tab.tobytes()
        if key not in shared:
            shared[key] = pf.FrequencyData(tab, cfg["freqs"])
        radi.set_wall_brdf([w], shared[key], din, dout)
    radi.set_air_attenuation(pf.FrequencyData(cfg["att"], cfg["freqs"]))
    if bake:
        radi.bake_geometry()
    return radi


def materials_in_force(radi, cfg):
    """None if every wall of an object built by [build] simulates pi x the table it was given; else a text"""
    din, dout = directions(cfg)
    tabs = np.array(radi._brdf)
    idx = np.array(radi._brdf_index)
    for w in range(len(idx)):
        want = wall_table(cfg, min(w, 5), din.csize, dout.csize) * np.pi
        got = np.real(np.asarray(tabs[idx[w]]))
        if got.shape != want.shape or np.any(np.abs(got - want) > 1e-12 * np.abs(want) + 1e-300):
            return ("wall %d simulates a table with mean %.6g, pi x the given table has mean %.6g"
                    % (w, float(np.mean(got)), float(np.mean(want))))
    return None


# --------------------------------------------------------------------------
# model session
# --------------------------------------------------------------------------
def scene_tokens(radi, tok=None):
    tok = tok or Tok()
    ins = np.array([s.cartesian for s in radi._brdf_incoming_directions])
    outs = np.array([s.cartesian for s in radi._brdf_outgoing_directions])
    nb = radi.n_bins
    tok.cmd("scene").i(radi.n_patches).i(outs.shape[1]).i(nb)
    tok.vecs(radi.patches_center)
    tok.arr(radi.patches_area)
    tok.arr(radi._patch_to_wall_ids, "i")
    tok.arr(radi._visibility_matrix, "b")
    tok.arr(radi._form_factors)
    tok.arr(radi._air_attenuation if radi._air_attenuation is not None else np.zeros(nb))
    tok.arr(np.array(radi._brdf))
    tok.arr(np.array(radi._brdf_index), "i")
    tok.vecs2(ins)
    tok.vecs2(outs)
    return tok


def point_shares(radi, pos, mode):
    return np.array([integration.pt_solution(point=np.array(pos, dtype=float),
                                             patch_points=radi.patches_points[k], mode=mode)
                     for k in range(radi.n_patches)])


def point_visibility(radi, pos):
    return geometry._check_point2patch_visibility(
        eval_point=np.array(pos, dtype=float), patches_center=radi.patches_center,
        surf_points=radi.walls_points, surf_normal=radi.walls_normal)


def source_tokens(tok, radi, pos, dirfac=None):
    tok.cmd("source").vec(pos)
    tok.arr(point_visibility(radi, pos), "b")
    tok.arr(point_shares(radi, pos, "source"))
    if dirfac is None:
        tok.b(False)
    else:
        tok.b(True).arr(dirfac)
    return tok


def receiver_tokens(tok, radi, pos):
    tok.cmd("receiver").vec(pos)
    tok.arr(point_visibility(radi, pos), "b")
    tok.arr(point_shares(radi, pos, "receiver"))
    return tok


def timing_tokens(tok, c, dt, dur):
    tok.cmd("timing").f(c).f(dt).f(dur)
    return tok


def near_int_delay(dists, c, dt, eps=1e-7):
    """True if some distance/c/dt is within eps (relative) of an integer"""
    x = np.asarray(dists, dtype=float) / c / dt
    x = x[x != 0]
    return bool(np.any(np.abs(x - np.round(x)) < eps * np.maximum(1.0, np.abs(x))))


def near_tie_nearest(dirs, v, eps=1e-9):
    d = np.sum((np.asarray(dirs) - np.asarray(v)) ** 2, axis=-1)
    if d.size < 2:
        return False
    s = np.sort(d)
    return bool(s[1] - s[0] < eps)
