"""Resolve merge conflicts in the two shared list files by taking the union of both sides."""
import re, sys
def union(path):
    s = open(path).read()
    if '<<<<<<<' not in s:
        return
    out = []
    for l in s.split('\n'):
        if l.startswith('<<<<<<<') or l.startswith('=======') or l.startswith('>>>>>>>'):
            continue
        out.append(l)
    open(path, 'w').write('\n'.join(out))
union('coq/_CoqProject'); union('coq/theories/Extract/Extract.v')
# _CoqProject: dedupe, Extract last
s = open('coq/_CoqProject').read().split('\n')
seen = []
for l in s:
    if l.strip() and l not in seen:
        seen.append(l)
ex = [l for l in seen if 'Extract/Extract.v' in l]
seen = [l for l in seen if 'Extract/Extract.v' not in l] + ex
open('coq/_CoqProject', 'w').write('\n'.join(seen) + '\n')
# Extract.v: merge Require lines and the extraction list
e = open('coq/theories/Extract/Extract.v').read()
mods = []
for m in re.findall(r'From SV Require Import (.*?)\.\n', e):
    for x in m.split():
        if x not in mods:
            mods.append(x)
body = e[e.index('Extraction "model.ml"') + len('Extraction "model.ml"'):]
names = []
for x in re.sub(r'\(\*.*?\*\)', '', body, flags=re.S).replace('.', ' ').split():
    if x not in names:
        names.append(x)
head = e[:e.index('From SV Require Import')]
new = head + ''.join('From SV Require Import %s.\n' % m for m in mods)
new += 'Require Extraction.\nFrom Coq Require Import ExtrOcamlBasic.\nExtraction Language OCaml.\nExtraction "model.ml"\n'
lines = []
cur = ' '
for nme in names:
    if len(cur) + len(nme) > 95:
        lines.append(cur); cur = ' '
    cur += ' ' + nme
lines.append(cur)
new += '\n'.join(lines) + '.\n'
open('coq/theories/Extract/Extract.v', 'w').write(new)
